#!/bin/bash
# Runs the repository's pinned baseline with the verif guard OFF and compares with /root/.vp/BASELINE.json.
export GOFLAGS=-mod=mod GOPROXY=off GOSUMDB=off GOTOOLCHAIN=local
export HOME=${HOME:-/root}
out=$(mktemp /tmp/baseline.XXXXXX.json)
(cd /repo && go test -mod=mod -json -vet=off -count=1 -timeout 25m ./... > "$out" 2>/dev/null)
python3 - "$out" <<'PY'
import json,sys
res={}
for l in open(sys.argv[1]):
    try: e=json.loads(l)
    except Exception: continue
    if e.get('Test') and e.get('Action') in('pass','fail','skip'):
        res[e['Package']+'::'+e['Test']]=e['Action']
b=json.load(open('/root/.vp/BASELINE.json'))
stable=b['stable_pass']
missing=[t for t in stable if res.get(t)!='pass']
print('stable tests:',len(stable),'passing now:',len(stable)-len(missing))
for t in missing[:40]: print('NOT PASSING:',t,res.get(t))
sys.exit(1 if missing else 0)
PY
rc=$?
rm -f "$out"
exit $rc
