#!/bin/bash
# Builds .build/simcheck-instr: the simulator linked against a scratch copy of /repo's current working
# tree in which every range-over-map of coreV2/** and api/v2/service is rewritten to a seeded order.
# The scratch copy lives outside /repo and /verif and is removed as soon as the binary exists.
set -u
export GOFLAGS=-mod=mod GOPROXY=off GOSUMDB=off GOTOOLCHAIN=local
export HOME=${HOME:-/root}
ROOT=$(dirname "$(dirname "$(realpath "$0")")")
REPO=${VERIF_REPO_DIR:-/repo}
mkdir -p "$ROOT/.build"
# content key of everything the binary is built from: rebuild only when /repo or the simulator changed
key=$( (cd $REPO && find . -path ./.git -prune -o -type f \( -name '*.go' -o -name 'go.mod' -o -name 'go.sum' \) -print0 | sort -z | xargs -0 sha256sum; cd "$ROOT" && find sim tools -type f \( -name '*.go' -o -name 'go.mod' \) -print0 | sort -z | xargs -0 sha256sum) | sha256sum | cut -d' ' -f1)
if [ -x "$ROOT/.build/simcheck-instr" ] && [ "$(cat "$ROOT/.build/simcheck-instr.key" 2>/dev/null)" = "$key" ]; then
  echo "instrumented binary is up to date with /repo's working tree"
  exit 0
fi
S=$(mktemp -d /tmp/verif-instr.XXXXXX)
trap 'rm -rf "$S"' EXIT
( cd "$ROOT/tools/instrument" && go build -o "$ROOT/.build/instrument" . ) || { echo "cannot build the instrumenter" >&2; exit 2; }
rsync -a --exclude .git --exclude OUT $REPO/ "$S/repo/" || exit 2
mkdir -p "$S/repo/simrt" && cp "$ROOT"/tools/simrt/*.go "$S/repo/simrt/" || exit 2
sed -i 's/^go 1\.17$/go 1.21/' "$S/repo/go.mod"
"$ROOT/.build/instrument" "$S/repo" > "$ROOT/.build/instrument.log" 2>&1 || { cat "$ROOT/.build/instrument.log" >&2; exit 2; }
tail -1 "$ROOT/.build/instrument.log"
sed "s#=> /repo#=> $S/repo#" "$ROOT/sim/go.mod" > "$S/go.instr.mod"
cp $REPO/go.sum "$S/go.instr.sum"
( cd "$ROOT/sim" && go build -modfile="$S/go.instr.mod" -tags "verif instr" -o "$ROOT/.build/simcheck-instr" ./cmd/simcheck ) || { echo "instrumented build failed" >&2; exit 2; }
echo "$key" > "$ROOT/.build/simcheck-instr.key"
