#!/bin/bash
# tools/new_mutant.sh <name> <property-id>: scratch worktree of /repo HEAD + prompt file for a sub-agent
# (the prompt contains only the property text; nothing from /verif).
n=$1; p=$2
mkdir -p /tmp/mut; git -C /repo worktree add --detach /tmp/mut/$n HEAD -q || exit 1
python3 - "$n" "$p" <<'PY'
import json,sys
n,p=sys.argv[1:3]
for l in open('/verif/properties.jsonl'):
    d=json.loads(l)
    if d['id']==p:
        text="%s: %s\n\n%s\n\nQuantified over: %s" % (d['id'], d['title'], d['statement'], d['quantifier']['text'])
t=open('/verif/tools/mutant_prompt.txt').read().replace('WORKTREE','/tmp/mut/'+n).replace('PROPERTY',text)
open('/tmp/mut/%s.prompt'%n,'w').write(t)
PY
echo /tmp/mut/$n.prompt
