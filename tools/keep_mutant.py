#!/usr/bin/env python3
"""tools/keep_mutant.py <worktree> <seeded-id> <verify-log> key=value...
Stores a confirmed seeded change under /verif/seeded/<id>/ (patch.diff, demonstration, meta.json)."""
import json, os, shutil, sys
wt, sid, vlog = sys.argv[1:4]
kv = dict(a.split('=', 1) for a in sys.argv[4:])
d = os.path.join(os.path.dirname(os.path.abspath(__file__)), '..', 'seeded', sid)
os.makedirs(d, exist_ok=True)
shutil.copy(os.path.join(wt, 'OUT', 'patch.diff'), os.path.join(d, 'patch.diff'))
demo = os.path.join(wt, 'OUT', 'tests', 'zz_demo_test.go')
if not os.path.exists(demo):
    demo = os.path.join(wt, 'tests', 'zz_demo_test.go')
if 'demo' in kv:
    demo = os.path.join(wt, kv['demo'])
shutil.copy(demo, os.path.join(d, 'zz_demo_test.go'))
try:
    am = json.load(open(os.path.join(wt, 'OUT', 'meta.json')))
except Exception:
    am = {}
meta = {
    'property': kv.get('property', am.get('property')),
    'summary': am.get('summary'),
    'needs_to_manifest': am.get('needs_to_manifest'),
    'files_changed': am.get('files_changed'),
    'demonstration': {'file': 'zz_demo_test.go (place in /repo/%s)' % os.path.dirname(kv.get('demo','tests/x')), 'run': kv.get('demo_run', am.get('demo_run_cmd'))},
    'confirmed_by_me': {
        'how': 'tools/verify_mutant.sh in the scratch worktree: go build ./...; demonstration with the change; demonstration with the change reverted; pinned baseline (guard off) with the change',
        'log': open(vlog).read().strip().splitlines(),
    },
    'checks_run': kv.get('checks_run', ''),
    'caught_by': [x for x in kv.get('caught_by', '').split(',') if x],
    'missed_by': [x for x in kv.get('missed_by', '').split(',') if x],
    'signatures': kv.get('signatures', ''),
    'notes': kv.get('notes', ''),
}
json.dump(meta, open(os.path.join(d, 'meta.json'), 'w'), indent=1)
print('kept', d)
