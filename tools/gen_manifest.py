#!/usr/bin/env python3
"""Generates /verif/MANIFEST.json from the table below (single source of truth for claimed checks)."""
import json, subprocess, os

REPO_HOOK_COMMITS = subprocess.run(["git","-C","/repo","log","--format=%H %s"],capture_output=True,text=True).stdout.splitlines()
hooks=[l.split()[0] for l in REPO_HOOK_COMMITS if " verif hook" in l]

CHAIN_NOTE = ("Trusted base: the simulator (simdb disk, tmsim consensus stub, op resolver), the reference oracle written from the property statement, "
              "Go toolchain. Real code: all of coreV2/**, formula, rlp, crypto, tree, IAVL, tendermint abci/types and ValidatorSet. "
              "Stubbed: Tendermint consensus/mempool/p2p, goleveldb, gRPC. Search is seeded sampling: a clean batch is evidence, not proof.")

# id -> (claimed?, level, technique, text, design_ref)
CHECKS = {}
def chk(i, level, technique, text, ref, note=CHAIN_NOTE):
    CHECKS[i]=dict(level=level, technique=technique, text=text, ref=ref, note=note)

NA = {}
def na(i, reason): NA[i]=reason

exec(open(os.path.join(os.path.dirname(__file__),"manifest_table.py")).read())

for p in list(NA):
    if p in CHECKS: del NA[p]
props=[json.loads(l)["id"] for l in open("/verif/properties.jsonl")]
checks=[]
for p in props:
    if p in CHECKS:
        c=CHECKS[p]
        checks.append({
            "property_id":p,
            "quick_cmd":f"./bin/check {p} --tier quick",
            "thorough_cmd":f"./bin/check {p} --tier thorough",
            "evidence_file":f"/verif/evidence/{p}.json",
            "replay_cmd_template":f"./bin/check {p} --replay {{path}}",
            "engine":"chainsim",
            "level_claimed":{"category":c["level"],"text":c["text"],"design_ref":c["ref"]},
            "level_note":c["note"],
            "technique":c["technique"],
        })
    else:
        assert p in NA, p
m={
 "version":1,
 "setup_cmd":"./bin/setup",
 "hooks":{"guard":"verif","enable":"go build -tags verif (every check builds /verif/sim against /repo with -tags verif)",
          "baseline_off_cmd":"./bin/baseline_off.sh","source_commits":hooks,"add_only":True},
 "engines":[{"name":"chainsim","path":"/verif/sim","serves_properties":[p for p in props if p in CHECKS],
             "kind_free_text":"deterministic whole-node simulation with fault injection: real minter.Blockchain over a simulated tm-db disk (crashable, cloneable), stub Tendermint (votes, evidence, clock, +2 validator delay, handshake), seeded op/fault schedules, ddmin shrinking, JSON replay files"}],
 "checks":checks,
 "not_applicable":[{"property_id":p,"reason":NA[p]} for p in props if p in NA],
 "notes":"All checks are `bin/check <id> --tier quick|thorough`; exit 0 held, 1 + VIOLATION line for a minimised violation that reproduced in a fresh process and is not listed in known_findings.json, 2 for infrastructure trouble (never a VIOLATION line). VERIF_SEED seeds every random choice.",
}
json.dump(m,open("/verif/MANIFEST.json","w"),indent=1)
print("claimed",len(checks),"not_applicable",len(m["not_applicable"]))
