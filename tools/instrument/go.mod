module instrument

go 1.22.0

toolchain go1.23.5

require golang.org/x/tools v0.29.0

require (
	golang.org/x/mod v0.22.0 // indirect
	golang.org/x/sync v0.10.0 // indirect
)
