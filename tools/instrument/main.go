// instrument rewrites a scratch copy of minter-go-node so that every `range` over a map iterates in an
// order decided by the simulator (package simrt) instead of Go's per-iteration random order.
//
// usage: instrument <scratch-repo-dir>
//
// For each `for k, v := range m` whose operand has map type and contains no call:
//
//	for _, simK := range simrt.Keys(m) {
//		simV, simOk := m[simK]; if !simOk { continue }
//		k, v := simK, simV        // (or `=` for the assignment form)
//		...body...
//	}
//
// Keys returns the keys sorted by a canonical encoding and then permuted by the order seed of the
// instance currently executing; entries deleted during the iteration are skipped like Go does,
// entries inserted during it are not visited (which Go permits). Operands containing calls are left
// alone and reported.
package main

import (
	"bytes"
	"fmt"
	"go/ast"
	"go/format"
	"go/token"
	"go/types"
	"os"
	"path/filepath"
	"strings"

	"golang.org/x/tools/go/ast/astutil"
	"golang.org/x/tools/go/packages"
)

const simrtPath = "github.com/MinterTeam/minter-go-node/simrt"

func hasCall(e ast.Expr) bool {
	found := false
	ast.Inspect(e, func(n ast.Node) bool {
		// zero-argument calls are accessors in this code base (p.unsortedSellOrderIDs().list,
		// c.deltas()): evaluating them twice yields the same map
		if c, ok := n.(*ast.CallExpr); ok && len(c.Args) > 0 {
			found = true
		}
		return !found
	})
	return found
}

func isBlank(e ast.Expr) bool {
	if e == nil {
		return true
	}
	id, ok := e.(*ast.Ident)
	return ok && id.Name == "_"
}

var locks, locksSkipped int

// rewriteLock turns x.Lock() / x.RLock() on a sync.Mutex / sync.RWMutex (value or pointer, reached
// through an addressable expression) into simrt.Lock(&x) / simrt.LockRW(&x) / simrt.RLock(&x):
// lock points become scheduling points of the cooperative scheduler (C25 tier B); without an active
// scheduler they are the plain calls.
func rewriteLock(p *packages.Package, call *ast.CallExpr) ast.Expr {
	sel, ok := call.Fun.(*ast.SelectorExpr)
	if !ok || len(call.Args) != 0 || (sel.Sel.Name != "Lock" && sel.Sel.Name != "RLock" && sel.Sel.Name != "Unlock" && sel.Sel.Name != "RUnlock") {
		return nil
	}
	tv, ok := p.TypesInfo.Types[sel.X]
	if !ok {
		return nil
	}
	t := tv.Type
	ptr := false
	if pt, ok := t.(*types.Pointer); ok {
		t, ptr = pt.Elem(), true
	}
	named, ok := t.(*types.Named)
	if !ok || named.Obj().Pkg() == nil || named.Obj().Pkg().Path() != "sync" {
		if s := p.TypesInfo.Selections[sel]; s != nil {
			if fn, ok := s.Obj().(*types.Func); ok && fn.Pkg() != nil && fn.Pkg().Path() == "sync" {
				pos := p.Fset.Position(call.Pos())
				fmt.Fprintf(os.Stderr, "lock not instrumented (embedded mutex): %s:%d\n", pos.Filename, pos.Line)
				locksSkipped++
			}
		}
		return nil
	}
	var fn string
	switch named.Obj().Name() + "." + sel.Sel.Name {
	case "Mutex.Lock":
		fn = "Lock"
	case "RWMutex.Lock":
		fn = "LockRW"
	case "RWMutex.RLock":
		fn = "RLock"
	case "Mutex.Unlock":
		fn = "Unlock"
	case "RWMutex.Unlock":
		fn = "UnlockRW"
	case "RWMutex.RUnlock":
		fn = "RUnlock"
	default:
		return nil
	}
	arg := sel.X
	if !ptr {
		if !tv.Addressable() {
			pos := p.Fset.Position(call.Pos())
			fmt.Fprintf(os.Stderr, "lock not instrumented (not addressable): %s:%d\n", pos.Filename, pos.Line)
			locksSkipped++
			return nil
		}
		arg = &ast.UnaryExpr{Op: token.AND, X: sel.X}
	}
	return &ast.CallExpr{Fun: &ast.SelectorExpr{X: ast.NewIdent("simrt"), Sel: ast.NewIdent(fn)}, Args: []ast.Expr{arg}}
}

func main() {
	if len(os.Args) != 2 {
		fmt.Fprintln(os.Stderr, "usage: instrument <repo-dir>")
		os.Exit(2)
	}
	dir, _ := filepath.Abs(os.Args[1])
	cfg := &packages.Config{Mode: packages.NeedName | packages.NeedFiles | packages.NeedSyntax | packages.NeedTypes | packages.NeedTypesInfo | packages.NeedCompiledGoFiles, Dir: dir, Tests: false}
	pkgs, err := packages.Load(cfg, "./coreV2/...", "./api/v2/service/...")
	if err != nil {
		fmt.Fprintln(os.Stderr, "load:", err)
		os.Exit(2)
	}
	rewritten, skipped, files := 0, 0, 0
	for _, p := range pkgs {
		if len(p.Errors) > 0 {
			for _, e := range p.Errors {
				fmt.Fprintln(os.Stderr, "package error:", e)
			}
			os.Exit(2)
		}
		for i, f := range p.Syntax {
			fname := p.CompiledGoFiles[i]
			if strings.HasSuffix(fname, "_test.go") || !strings.HasPrefix(fname, dir) {
				continue
			}
			changed := false
			n := 0
			astutil.Apply(f, func(c *astutil.Cursor) bool {
				if call, ok := c.Node().(*ast.CallExpr); ok {
					if repl := rewriteLock(p, call); repl != nil {
						c.Replace(repl)
						changed = true
						locks++
					}
					return true
				}
				rs, ok := c.Node().(*ast.RangeStmt)
				if !ok {
					return true
				}
				tv, ok := p.TypesInfo.Types[rs.X]
				if !ok {
					return true
				}
				if _, isMap := tv.Type.Underlying().(*types.Map); !isMap {
					return true
				}
				if hasCall(rs.X) {
					pos := p.Fset.Position(rs.Pos())
					fmt.Fprintf(os.Stderr, "not instrumented (operand contains a call): %s:%d\n", pos.Filename, pos.Line)
					skipped++
					return true
				}
				n++
				kName := fmt.Sprintf("simK%d", n)
				vName := fmt.Sprintf("simV%d", n)
				okName := fmt.Sprintf("simOk%d", n)
				var pre []ast.Stmt
				// simV, simOk := X[simK] ; if !simOk { continue }
				lhsV := ast.Expr(ast.NewIdent("_"))
				if !isBlank(rs.Value) {
					lhsV = ast.NewIdent(vName)
				}
				pre = append(pre, &ast.AssignStmt{Lhs: []ast.Expr{lhsV, ast.NewIdent(okName)}, Tok: token.DEFINE, Rhs: []ast.Expr{&ast.IndexExpr{X: rs.X, Index: ast.NewIdent(kName)}}})
				pre = append(pre, &ast.IfStmt{Cond: &ast.UnaryExpr{Op: token.NOT, X: ast.NewIdent(okName)}, Body: &ast.BlockStmt{List: []ast.Stmt{&ast.BranchStmt{Tok: token.CONTINUE}}}})
				tok := rs.Tok
				if tok == token.ILLEGAL {
					tok = token.DEFINE
				}
				if !isBlank(rs.Key) {
					pre = append(pre, &ast.AssignStmt{Lhs: []ast.Expr{rs.Key}, Tok: tok, Rhs: []ast.Expr{ast.NewIdent(kName)}})
				}
				if !isBlank(rs.Value) {
					pre = append(pre, &ast.AssignStmt{Lhs: []ast.Expr{rs.Value}, Tok: tok, Rhs: []ast.Expr{ast.NewIdent(vName)}})
				}
				body := &ast.BlockStmt{List: append(pre, rs.Body.List...)}
				nrs := &ast.RangeStmt{Key: ast.NewIdent("_"), Value: ast.NewIdent(kName), Tok: token.DEFINE,
					X: &ast.CallExpr{Fun: &ast.SelectorExpr{X: ast.NewIdent("simrt"), Sel: ast.NewIdent("Keys")}, Args: []ast.Expr{rs.X}}, Body: body}
				c.Replace(nrs)
				changed = true
				rewritten++
				return true
			}, nil)
			if !changed {
				continue
			}
			astutil.AddImport(p.Fset, f, simrtPath)
			var buf bytes.Buffer
			if err := format.Node(&buf, p.Fset, f); err != nil {
				fmt.Fprintln(os.Stderr, "format:", fname, err)
				os.Exit(2)
			}
			if err := os.WriteFile(fname, buf.Bytes(), 0o644); err != nil {
				fmt.Fprintln(os.Stderr, err)
				os.Exit(2)
			}
			files++
		}
	}
	fmt.Printf("instrument: %d map ranges rewritten in %d files, %d left alone; %d lock points rewritten, %d left alone\n", rewritten, files, skipped, locks, locksSkipped)
}
