#!/bin/bash
# tools/verify_mutant.sh <worktree-with-change-applied> [demo test regex] [extra go test flags for demo]
# Confirms a seeded change: it builds, the pinned stable baseline still passes with it (guard off),
# the demonstration fails with the change and passes without it. Leaves the worktree patched.
export GOFLAGS=-mod=mod GOPROXY=off GOSUMDB=off GOTOOLCHAIN=local HOME=${HOME:-/root}
d=$1; rx=${2:-Demo}; extra=$3
cd $d || exit 2
git apply --check -R OUT/patch.diff 2>/dev/null || { echo "patch not applied in worktree?"; }
go build ./... || { echo "BUILD FAILS"; exit 1; }
pkg=${DEMO_PKG:-./tests/}
demo() { go test -vet=off -count=1 $extra -run "$rx" $pkg 2>&1 | tail -30; }
echo "== demo with change"; demo > /tmp/vm.$$.with; grep -a -E "^(ok|FAIL|---)" /tmp/vm.$$.with | head -8
git apply -R OUT/patch.diff || exit 2
echo "== demo without change"; demo > /tmp/vm.$$.without; grep -a -E "^(ok|FAIL|---)" /tmp/vm.$$.without | head -8
git apply OUT/patch.diff || exit 2
rm -f /tmp/vm.$$.*
echo "== baseline with change"
mv tests/zz_demo_test.go /tmp/zz_demo.$$ 2>/dev/null
out=$(mktemp /tmp/baseline.XXXXXX.json)
go test -mod=mod -json -vet=off -count=1 -timeout 25m ./... > "$out" 2>/dev/null
mv /tmp/zz_demo.$$ tests/zz_demo_test.go 2>/dev/null
python3 - "$out" <<'PY'
import json,sys
res={}
for l in open(sys.argv[1]):
    try: e=json.loads(l)
    except Exception: continue
    if e.get('Test') and e.get('Action') in('pass','fail','skip'):
        res[e['Package']+'::'+e['Test']]=e['Action']
b=json.load(open('/root/.vp/BASELINE.json'))
stable=b['stable_pass']
missing=[t for t in stable if res.get(t)!='pass']
print('stable tests:',len(stable),'passing now:',len(stable)-len(missing))
for t in missing[:40]: print('NOT PASSING:',t,res.get(t))
PY
rm -f "$out"
