// Package simrt is copied into the instrumented scratch copy of minter-go-node. It decides the
// iteration order of every instrumented `range` over a map from an order seed that the simulator sets
// before it calls into a node instance (instances run one at a time).
package simrt

import (
	"encoding/binary"
	"fmt"
	"hash/fnv"
	"reflect"
	"sort"
)

var order uint64

// Ranges counts instrumented map iterations (coverage evidence).
var Ranges uint64

// MultiKey counts iterations over maps with more than one key (where order can matter).
var MultiKey uint64

// SetOrder selects the iteration order: 0 ascending by canonical key encoding, 1 descending,
// any other value a pseudo-random permutation that is a pure function of the value and the keys.
func SetOrder(o uint64) { order = o }

func encode(buf []byte, v reflect.Value) []byte {
	switch v.Kind() {
	case reflect.Uint, reflect.Uint8, reflect.Uint16, reflect.Uint32, reflect.Uint64, reflect.Uintptr:
		var b [8]byte
		binary.BigEndian.PutUint64(b[:], v.Uint())
		return append(buf, b[:]...)
	case reflect.Int, reflect.Int8, reflect.Int16, reflect.Int32, reflect.Int64:
		var b [8]byte
		binary.BigEndian.PutUint64(b[:], uint64(v.Int())^(1<<63))
		return append(buf, b[:]...)
	case reflect.String:
		return append(append(buf, v.String()...), 0)
	case reflect.Bool:
		if v.Bool() {
			return append(buf, 1)
		}
		return append(buf, 0)
	case reflect.Array:
		for i := 0; i < v.Len(); i++ {
			buf = encode(buf, v.Index(i))
		}
		return buf
	case reflect.Struct:
		for i := 0; i < v.NumField(); i++ {
			buf = encode(buf, v.Field(i))
		}
		return buf
	}
	return append(buf, fmt.Sprintf("%#v", v.Interface())...)
}

type keyed[K any] struct {
	k   K
	enc string
	h   uint64
}

// Keys returns the keys of m in the order selected by SetOrder.
func Keys[M ~map[K]V, K comparable, V any](m M) []K {
	Ranges++
	if len(m) > 1 {
		MultiKey++
	}
	ks := make([]keyed[K], 0, len(m))
	for k := range m {
		e := string(encode(nil, reflect.ValueOf(k)))
		x := keyed[K]{k: k, enc: e}
		if order >= 2 {
			h := fnv.New64a()
			var b [8]byte
			binary.BigEndian.PutUint64(b[:], order)
			h.Write(b[:])
			h.Write([]byte(e))
			x.h = h.Sum64()
		}
		ks = append(ks, x)
	}
	switch order {
	case 0:
		sort.Slice(ks, func(i, j int) bool { return ks[i].enc < ks[j].enc })
	case 1:
		sort.Slice(ks, func(i, j int) bool { return ks[i].enc > ks[j].enc })
	default:
		sort.Slice(ks, func(i, j int) bool {
			if ks[i].h != ks[j].h {
				return ks[i].h < ks[j].h
			}
			return ks[i].enc < ks[j].enc
		})
	}
	out := make([]K, len(ks))
	for i := range ks {
		out[i] = ks[i].k
	}
	return out
}
