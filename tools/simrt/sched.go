package simrt

import (
	"fmt"
	"runtime/debug"
	"sync"
	"time"
)

// Cooperative scheduler for lock-point interleaving (C25 tier B).
//
// The instrumenter rewrites every `x.Lock()` / `x.RLock()` on a sync.Mutex / sync.RWMutex of the
// repository into simrt.Lock(&x) / simrt.LockRW(&x) / simrt.RLock(&x). Without an active scheduler
// these are the plain calls. With one, tasks run strictly one at a time: a lock point first offers
// the processor to the scheduler (which picks the next task from the seeded choice function), then
// acquires with TryLock, yielding as "blocked" while the lock is held by a parked task. Which task
// runs next is therefore a pure function of the choice sequence: one seed, one interleaving.

type task struct {
	id      int
	wake    chan struct{}
	done    bool
	blocked bool
	panicV  interface{}
	stack   string
	waitAt  string // stack of the latest lock point at which the task found the lock taken
}

// Sched is one interleaved execution of a set of tasks.
type Sched struct {
	mu       sync.Mutex
	tasks    []*task
	cur      *task
	choose   func(n int) int
	finished chan struct{}
	Switches int // context switches performed
	Points   int // lock points passed
	Blocked  int // times a task found its lock held by a parked task
	Trace    []byte
	deadlock bool
	cycle    []string
	lastBeat time.Time
}

var active *Sched

// TaskResult is the outcome of one task.
type TaskResult struct {
	Panic  interface{}
	Stack  string
	WaitAt string
	Done   bool
}

// Result of an interleaved run.
type RunResult struct {
	Tasks    []TaskResult
	Deadlock bool
	Cycle    []string // where every live task was waiting when the lock cycle was detected
	Stalled  bool // watchdog: the running task did not reach a lock point or finish in time (infrastructure)
	Switches int
	Points   int
	Blocked  int
	Trace    []byte // task id chosen at every switch (interleaving fingerprint)
}

// Run executes the tasks under the scheduler. choose(n) returns an index in [0,n) and is the only
// source of scheduling decisions. Task 0 starts.
func Run(choose func(n int) int, fs []func(), stall time.Duration) RunResult {
	s := &Sched{choose: choose, finished: make(chan struct{}), lastBeat: time.Now()}
	for i := range fs {
		s.tasks = append(s.tasks, &task{id: i, wake: make(chan struct{}, 1)})
	}
	active = s
	for i, f := range fs {
		t, f := s.tasks[i], f
		go func() {
			<-t.wake
			defer func() {
				if r := recover(); r != nil {
					t.panicV = r
					t.stack = string(debug.Stack())
				}
				s.exit(t)
			}()
			f()
		}()
	}
	s.cur = s.tasks[0]
	s.tasks[0].wake <- struct{}{}
	res := RunResult{}
	tick := time.NewTicker(200 * time.Millisecond)
	defer tick.Stop()
loop:
	for {
		select {
		case <-s.finished:
			break loop
		case <-tick.C:
			s.mu.Lock()
			stale := time.Since(s.lastBeat) > stall
			s.mu.Unlock()
			if stale {
				res.Stalled = true
				break loop
			}
		}
	}
	active = nil
	for _, t := range s.tasks {
		res.Tasks = append(res.Tasks, TaskResult{Panic: t.panicV, Stack: t.stack, WaitAt: t.waitAt, Done: t.done})
	}
	res.Cycle = s.cycle
	res.Deadlock, res.Switches, res.Points, res.Blocked, res.Trace = s.deadlock, s.Switches, s.Points, s.Blocked, s.Trace
	return res
}

// exit marks the current task finished and hands the processor on.
func (s *Sched) exit(t *task) {
	s.mu.Lock()
	t.done = true
	s.lastBeat = time.Now()
	// the finished task has released whatever it held: everybody may try again
	for _, o := range s.tasks {
		o.blocked = false
	}
	next := s.pick(nil)
	if next == nil {
		s.mu.Unlock()
		close(s.finished)
		return
	}
	s.switchTo(next)
	s.mu.Unlock()
}

// pick chooses the next runnable task (not done, not blocked; exclude is skipped unless it is the
// only one). Caller holds s.mu.
func (s *Sched) pick(self *task) *task {
	var cand []*task
	for _, t := range s.tasks {
		if !t.done && !t.blocked {
			cand = append(cand, t)
		}
	}
	if len(cand) == 0 {
		return nil
	}
	_ = self
	return cand[s.choose(len(cand))%len(cand)]
}

func (s *Sched) switchTo(next *task) {
	s.cur = next
	s.Switches++
	if len(s.Trace) < 4096 {
		s.Trace = append(s.Trace, byte('0'+next.id%10))
	}
	next.wake <- struct{}{}
}

// yield offers the processor; blocked says the caller cannot proceed until somebody else has run.
// Returns false when every live task is blocked (deadlock): the caller then proceeds with a real,
// blocking acquisition is NOT attempted; it panics instead so that the run ends.
func (s *Sched) yield(blocked bool) {
	s.mu.Lock()
	me := s.cur
	s.lastBeat = time.Now()
	if blocked {
		me.blocked = true
		s.Blocked++
		me.waitAt = string(debug.Stack())
	}
	next := s.pick(me)
	if next == nil {
		// everybody waits for a lock held by a parked task
		s.deadlock = true
		for _, t := range s.tasks {
			if !t.done {
				s.cycle = append(s.cycle, fmt.Sprintf("task %d waits at:\n%s", t.id, t.waitAt))
			}
		}
		me.blocked = false
		s.mu.Unlock()
		panic(fmt.Sprintf("simrt: deadlock: all %d live tasks wait for locks held by parked tasks", s.live()))
	}
	if next == me {
		s.mu.Unlock()
		return
	}
	s.switchTo(next)
	s.mu.Unlock()
	<-me.wake
}

// progress: a lock was acquired or released (or a task ended): every task that found its lock taken
// may succeed now. A task stays "blocked" only while nothing of that kind has happened since it tried,
// so "every live task blocked" means a cycle of tasks waiting for each other.
func (s *Sched) progress() {
	s.mu.Lock()
	for _, t := range s.tasks {
		t.blocked = false
	}
	s.mu.Unlock()
}

func (s *Sched) live() int {
	n := 0
	for _, t := range s.tasks {
		if !t.done {
			n++
		}
	}
	return n
}

func point() *Sched {
	s := active
	if s == nil {
		return nil
	}
	s.Points++
	s.yield(false)
	return s
}

// Lock is the instrumented form of m.Lock().
func Lock(m *sync.Mutex) {
	s := point()
	if s == nil {
		m.Lock()
		return
	}
	for !m.TryLock() {
		s.yield(true)
	}
	s.progress()
}

// LockRW is the instrumented form of m.Lock() on a RWMutex.
func LockRW(m *sync.RWMutex) {
	s := point()
	if s == nil {
		m.Lock()
		return
	}
	for !m.TryLock() {
		s.yield(true)
	}
	s.progress()
}

// RLock is the instrumented form of m.RLock().
func RLock(m *sync.RWMutex) {
	s := point()
	if s == nil {
		m.RLock()
		return
	}
	for !m.TryRLock() {
		s.yield(true)
	}
	s.progress()
}

// Unlock, UnlockRW, RUnlock are the instrumented forms of the releases: no scheduling point, but the
// scheduler learns that waiting tasks may proceed.
func Unlock(m *sync.Mutex) {
	m.Unlock()
	if s := active; s != nil {
		s.progress()
	}
}

func UnlockRW(m *sync.RWMutex) {
	m.Unlock()
	if s := active; s != nil {
		s.progress()
	}
}

func RUnlock(m *sync.RWMutex) {
	m.RUnlock()
	if s := active; s != nil {
		s.progress()
	}
}

// Active reports whether a scheduler is running (tasks may consult it to avoid nesting).
func Active() bool { return active != nil }
