#!/bin/bash
# tools/try_mutant.sh <repo-checkout-with-change> <prop> [<prop> ...]
# Runs the quick tier of the given checks against another checkout (development aid for the
# sensitivity waves); prints one line per check: property, exit code, violation signatures.
d=$1; shift
for p in "$@"; do
  out=$(VERIF_EVIDENCE_DIR=/tmp/mut-evidence VERIF_REPO=$d /verif/bin/check $p --tier quick 2>&1); rc=$?
  sigs=$(echo "$out" | grep -a "signature:" | sed 's/ *signature: //' | tr '\n' ' ')
  echo "$p exit=$rc $sigs"
done
