// Package simdb is the simulated disk: an in-memory implementation of tm-db's DB interface with a
// global durable-write sequence per Disk, crash-at-kth-write, O(1) copy-on-write clones and a write log.
//
// Crash model (process crash, goleveldb semantics): every completed Set/Delete and every Batch.Write is
// durable, a batch is atomic, nothing else survives. CrashAt(k) makes the k-th durable write from now
// raise a CrashSentinel panic BEFORE it is applied and marks the disk dead, so that nothing the dying
// process does afterwards reaches the platters.
package simdb

import (
	"bytes"
	"errors"
	"fmt"
	"sync"

	"github.com/google/btree"
	db "github.com/tendermint/tm-db"
)

// CrashSentinel is the panic value raised when the simulated process dies inside a write.
type CrashSentinel struct {
	Seq   uint64
	Store string
}

func (c CrashSentinel) Error() string { return fmt.Sprintf("simdb: crash at write %d (%s)", c.Seq, c.Store) }

// WriteRec is one durable write.
type WriteRec struct {
	Seq   uint64
	Store string
	Kind  string // set, del, batch
	N     int    // keys in the write
	Key   string // first key (truncated), for classification
}

type item struct {
	k, v []byte
}

func (a *item) Less(b btree.Item) bool { return bytes.Compare(a.k, b.(*item).k) < 0 }

// Disk is a set of named stores sharing one write sequence.
type Disk struct {
	mu      sync.Mutex
	stores  map[string]*Store
	seq     uint64
	crashAt uint64 // absolute sequence number that crashes; 0 = none
	dead    bool
	log     []WriteRec
	logOn   bool
	failGet map[string]int // store -> remaining gets until error (fault injection, optional)
}

// Store is one tm-db database on a Disk.
type Store struct {
	disk   *Disk
	name   string
	tree   *btree.BTree
	closed bool
}

var _ db.DB = (*Store)(nil)

var storeNames = []string{"state", "app", "events", "snapshot"}

// NewDisk returns an empty disk with the four stores of a node.
func NewDisk() *Disk {
	d := &Disk{stores: map[string]*Store{}}
	for _, n := range storeNames {
		d.stores[n] = &Store{disk: d, name: n, tree: btree.New(32)}
	}
	return d
}

// Store returns the named store handle.
func (d *Disk) Store(name string) *Store { return d.stores[name] }

// Clone returns an independent disk holding the same durable contents (what a machine image copy
// taken at this instant would contain). Handles of the clone are open, its sequence starts at 0.
func (d *Disk) Clone() *Disk {
	d.mu.Lock()
	defer d.mu.Unlock()
	n := &Disk{stores: map[string]*Store{}}
	for name, s := range d.stores {
		n.stores[name] = &Store{disk: n, name: name, tree: s.tree.Clone()}
	}
	return n
}

// Seq is the number of durable writes performed so far.
func (d *Disk) Seq() uint64 { d.mu.Lock(); defer d.mu.Unlock(); return d.seq }

// CrashAt arms a crash: the k-th durable write from now (k>=1) does not happen and panics.
// k==0 disarms.
func (d *Disk) CrashAt(k uint64) {
	d.mu.Lock()
	defer d.mu.Unlock()
	if k == 0 {
		d.crashAt = 0
		return
	}
	d.crashAt = d.seq + k
}

// Dead reports whether a crash fired.
func (d *Disk) Dead() bool { d.mu.Lock(); defer d.mu.Unlock(); return d.dead }

// LogWrites switches the write log on/off and clears it.
func (d *Disk) LogWrites(on bool) { d.mu.Lock(); d.logOn = on; d.log = nil; d.mu.Unlock() }

// TakeLog returns and clears the write log.
func (d *Disk) TakeLog() []WriteRec {
	d.mu.Lock()
	defer d.mu.Unlock()
	l := d.log
	d.log = nil
	return l
}

// Size returns the number of keys per store.
func (d *Disk) Size() map[string]int {
	d.mu.Lock()
	defer d.mu.Unlock()
	m := map[string]int{}
	for n, s := range d.stores {
		m[n] = s.tree.Len()
	}
	return m
}

// durable is called with d.mu held, before applying a write.
func (d *Disk) durable(store, kind string, n int, key []byte) {
	if d.dead {
		panic(CrashSentinel{Seq: d.seq, Store: store})
	}
	d.seq++
	if d.crashAt != 0 && d.seq == d.crashAt {
		d.dead = true
		d.seq--
		panic(CrashSentinel{Seq: d.seq + 1, Store: store})
	}
	if d.logOn {
		k := string(key)
		if len(k) > 24 {
			k = k[:24]
		}
		d.log = append(d.log, WriteRec{Seq: d.seq, Store: store, Kind: kind, N: n, Key: k})
	}
}

var errClosed = errors.New("simdb: database closed")
var errKeyEmpty = errors.New("key cannot be empty")
var errValueNil = errors.New("value cannot be nil")

func cp(b []byte) []byte {
	if b == nil {
		return nil
	}
	c := make([]byte, len(b))
	copy(c, b)
	return c
}

func (s *Store) Get(key []byte) ([]byte, error) {
	if len(key) == 0 {
		return nil, errKeyEmpty
	}
	s.disk.mu.Lock()
	defer s.disk.mu.Unlock()
	if s.closed {
		return nil, errClosed
	}
	if i := s.tree.Get(&item{k: key}); i != nil {
		return cp(i.(*item).v), nil
	}
	return nil, nil
}

func (s *Store) Has(key []byte) (bool, error) {
	if len(key) == 0 {
		return false, errKeyEmpty
	}
	s.disk.mu.Lock()
	defer s.disk.mu.Unlock()
	if s.closed {
		return false, errClosed
	}
	return s.tree.Has(&item{k: key}), nil
}

func (s *Store) Set(key, value []byte) error {
	if len(key) == 0 {
		return errKeyEmpty
	}
	if value == nil {
		return errValueNil
	}
	s.disk.mu.Lock()
	defer s.disk.mu.Unlock()
	if s.closed {
		return errClosed
	}
	s.disk.durable(s.name, "set", 1, key)
	s.tree.ReplaceOrInsert(&item{k: cp(key), v: cp(value)})
	return nil
}

func (s *Store) SetSync(key, value []byte) error { return s.Set(key, value) }

func (s *Store) Delete(key []byte) error {
	if len(key) == 0 {
		return errKeyEmpty
	}
	s.disk.mu.Lock()
	defer s.disk.mu.Unlock()
	if s.closed {
		return errClosed
	}
	s.disk.durable(s.name, "del", 1, key)
	s.tree.Delete(&item{k: key})
	return nil
}

func (s *Store) DeleteSync(key []byte) error { return s.Delete(key) }

// Close marks this handle closed (the data stays on the disk).
func (s *Store) Close() error {
	s.disk.mu.Lock()
	defer s.disk.mu.Unlock()
	s.closed = true
	return nil
}

// Reopen returns a fresh disk object over the same contents, as a new process opening the same
// directory would see it. The old handles become closed.
func (d *Disk) Reopen() *Disk {
	d.mu.Lock()
	defer d.mu.Unlock()
	n := &Disk{stores: map[string]*Store{}}
	for name, s := range d.stores {
		s.closed = true
		n.stores[name] = &Store{disk: n, name: name, tree: s.tree.Clone()}
	}
	d.dead = true
	return n
}

func (s *Store) Print() error             { return nil }
func (s *Store) Stats() map[string]string { return map[string]string{"keys": fmt.Sprint(s.tree.Len())} }

// Len returns the number of keys.
func (s *Store) Len() int { s.disk.mu.Lock(); defer s.disk.mu.Unlock(); return s.tree.Len() }

// ---- iterator: a snapshot taken at creation (goleveldb iterators see a consistent snapshot) ----

type iter struct {
	start, end []byte
	items      []*item
	pos        int
}

func (s *Store) snapshotRange(start, end []byte, reverse bool) (*iter, error) {
	if (start != nil && len(start) == 0) || (end != nil && len(end) == 0) {
		return nil, errKeyEmpty
	}
	s.disk.mu.Lock()
	if s.closed {
		s.disk.mu.Unlock()
		return nil, errClosed
	}
	t := s.tree.Clone() // O(1), isolates the iteration from later writes
	s.disk.mu.Unlock()
	it := &iter{start: start, end: end}
	visit := func(i btree.Item) bool {
		it.items = append(it.items, i.(*item))
		return true
	}
	if !reverse {
		switch {
		case start != nil && end != nil:
			t.AscendRange(&item{k: start}, &item{k: end}, visit)
		case start != nil:
			t.AscendGreaterOrEqual(&item{k: start}, visit)
		case end != nil:
			t.AscendLessThan(&item{k: end}, visit)
		default:
			t.Ascend(visit)
		}
	} else {
		// [start, end) descending
		switch {
		case start != nil && end != nil:
			t.AscendRange(&item{k: start}, &item{k: end}, visit)
		case start != nil:
			t.AscendGreaterOrEqual(&item{k: start}, visit)
		case end != nil:
			t.AscendLessThan(&item{k: end}, visit)
		default:
			t.Ascend(visit)
		}
		for i, j := 0, len(it.items)-1; i < j; i, j = i+1, j-1 {
			it.items[i], it.items[j] = it.items[j], it.items[i]
		}
	}
	return it, nil
}

func (s *Store) Iterator(start, end []byte) (db.Iterator, error) {
	return s.snapshotRange(start, end, false)
}
func (s *Store) ReverseIterator(start, end []byte) (db.Iterator, error) {
	return s.snapshotRange(start, end, true)
}

func (i *iter) Domain() ([]byte, []byte) { return i.start, i.end }
func (i *iter) Valid() bool              { return i.pos < len(i.items) }
func (i *iter) Next() {
	if !i.Valid() {
		panic("simdb: iterator is invalid")
	}
	i.pos++
}
func (i *iter) Key() []byte {
	if !i.Valid() {
		panic("simdb: iterator is invalid")
	}
	return cp(i.items[i.pos].k)
}
func (i *iter) Value() []byte {
	if !i.Valid() {
		panic("simdb: iterator is invalid")
	}
	return cp(i.items[i.pos].v)
}
func (i *iter) Error() error { return nil }
func (i *iter) Close() error { return nil }

// ---- batch ----

type bop struct {
	del  bool
	k, v []byte
}

type batch struct {
	s   *Store
	ops []bop
	done bool
}

func (s *Store) NewBatch() db.Batch { return &batch{s: s} }

func (b *batch) Set(key, value []byte) error {
	if len(key) == 0 {
		return errKeyEmpty
	}
	if value == nil {
		return errValueNil
	}
	if b.done {
		return errors.New("simdb: batch has been written or closed")
	}
	b.ops = append(b.ops, bop{k: cp(key), v: cp(value)})
	return nil
}

func (b *batch) Delete(key []byte) error {
	if len(key) == 0 {
		return errKeyEmpty
	}
	if b.done {
		return errors.New("simdb: batch has been written or closed")
	}
	b.ops = append(b.ops, bop{del: true, k: cp(key)})
	return nil
}

func (b *batch) Write() error {
	if b.done {
		return errors.New("simdb: batch has been written or closed")
	}
	d := b.s.disk
	d.mu.Lock()
	defer d.mu.Unlock()
	if b.s.closed {
		return errClosed
	}
	var first []byte
	if len(b.ops) > 0 {
		first = b.ops[0].k
	}
	d.durable(b.s.name, "batch", len(b.ops), first)
	for _, o := range b.ops {
		if o.del {
			b.s.tree.Delete(&item{k: o.k})
		} else {
			b.s.tree.ReplaceOrInsert(&item{k: o.k, v: o.v})
		}
	}
	b.done = true
	b.ops = nil
	return nil
}

func (b *batch) WriteSync() error { return b.Write() }
func (b *batch) Close() error     { b.done = true; b.ops = nil; return nil }

// Dump returns all key/value pairs of a store (for equality checks between disks).
func (s *Store) Dump() [][2][]byte {
	s.disk.mu.Lock()
	t := s.tree.Clone()
	s.disk.mu.Unlock()
	var out [][2][]byte
	t.Ascend(func(i btree.Item) bool {
		it := i.(*item)
		out = append(out, [2][]byte{it.k, it.v})
		return true
	})
	return out
}
