// simcheck: driver, worker and replayer of the deterministic chain simulator.
package main

import (
	"bufio"
	"encoding/hex"
	"encoding/json"
	"flag"
	"fmt"
	"math/rand"
	"os"
	"os/exec"
	"path/filepath"
	"sort"
	"strconv"
	"strings"
	"sync"
	"time"

	"chainsim/chain"
)

var verifRoot = func() string {
	if r := os.Getenv("VERIF_ROOT"); r != "" {
		return r
	}
	return "/verif"
}()

type runRec struct {
	K        int            `json:"k"`
	Seed     int64          `json:"seed"`
	Chain    int            `json:"chain"`
	Blocks   int            `json:"blocks"`
	Planned  int            `json:"planned"`
	Txs      int            `json:"txs"`
	Accepted int            `json:"accepted"`
	Faults   map[string]int `json:"faults,omitempty"`
	Probes   map[string]int `json:"probes,omitempty"`
	KnownSoft map[string]int `json:"known_soft,omitempty"`
	SimSec   int64          `json:"sim_sec"`
	Hashes   int            `json:"hashes"`
	Distinct []string       `json:"distinct,omitempty"`
	Sig      string         `json:"sig,omitempty"`
	Detail   string         `json:"detail,omitempty"`
	Known    bool           `json:"known,omitempty"`
	Replay   string         `json:"replay,omitempty"`
	Infra    string         `json:"infra,omitempty"`
	Trunc    string         `json:"trunc,omitempty"`
	WallMs   int64          `json:"wall_ms"`
	Digest   string         `json:"digest"`
	Sample   json.RawMessage `json:"sample,omitempty"`
	ShrinkTries int         `json:"shrink_tries,omitempty"`
}

type finding struct {
	Property    string `json:"property"`
	Key         string `json:"key"`
	Description string `json:"description"`
}

type knownFile struct {
	Findings []finding `json:"findings"`
	Fixed    []string  `json:"fixed"`
}

func loadKnown() knownFile {
	var k knownFile
	b, err := os.ReadFile(filepath.Join(verifRoot, "known_findings.json"))
	if err == nil {
		_ = json.Unmarshal(b, &k)
	}
	return k
}

func (k *knownFile) match(sig string) *finding {
	for i := range k.Findings {
		f := &k.Findings[i]
		if f.Key == sig || (strings.HasSuffix(f.Key, "*") && strings.HasPrefix(sig, strings.TrimSuffix(f.Key, "*"))) {
			return f
		}
	}
	return nil
}

func main() {
	if len(os.Args) < 2 {
		fmt.Fprintln(os.Stderr, "usage: simcheck run|worker|replay|selftest ...")
		os.Exit(2)
	}
	switch os.Args[1] {
	case "run":
		os.Exit(cmdRun(os.Args[2:]))
	case "worker":
		os.Exit(cmdWorker(os.Args[2:]))
	case "replay":
		os.Exit(cmdReplay(os.Args[2:]))
	case "selftest":
		os.Exit(cmdSelftest(os.Args[2:]))
	case "one":
		os.Exit(cmdOne(os.Args[2:]))
	default:
		if extra, ok := extraCmds[os.Args[1]]; ok {
			os.Exit(extra(os.Args[2:]))
		}
		fmt.Fprintln(os.Stderr, "unknown command", os.Args[1])
		os.Exit(2)
	}
}

var extraCmds = map[string]func([]string) int{}

func sampleOf(sc *chain.Scenario) json.RawMessage {
	type s struct {
		Seed    int64           `json:"seed"`
		Chain   int             `json:"chain_id"`
		Node    chain.NodeCfg   `json:"node"`
		Gen     chain.GenCfg    `json:"gen"`
		Blocks  int             `json:"blocks"`
		First   []chain.BlockOp `json:"first_blocks"`
	}
	x := s{Seed: sc.Seed, Chain: sc.ChainID, Node: sc.Node, Gen: sc.Gen, Blocks: len(sc.Blocks)}
	for i := 0; i < len(sc.Blocks) && len(x.First) < 2; i++ {
		if len(sc.Blocks[i].Ops) > 0 {
			b := sc.Blocks[i]
			if len(b.Ops) > 3 {
				b.Ops = b.Ops[:3]
			}
			for j := range b.Ops {
				if len(b.Ops[j].Raw) > 16 {
					b.Ops[j].Raw = b.Ops[j].Raw[:16]
				}
			}
			x.First = append(x.First, b)
		}
	}
	b, _ := json.Marshal(x)
	return b
}

func runOne(spec *chain.PropSpec, sc *chain.Scenario) *chain.World {
	w := chain.RunScenario(sc, spec)
	w.Close()
	return w
}

func sigOf(w *chain.World) string {
	if w.Viol != nil {
		return w.Viol.Sig()
	}
	return ""
}

func cmdWorker(args []string) int {
	fs := flag.NewFlagSet("worker", flag.ExitOnError)
	prop := fs.String("prop", "", "")
	tier := fs.String("tier", "quick", "")
	base := fs.Int64("base", 1, "")
	offset := fs.Int("offset", 0, "")
	stride := fs.Int("stride", 1, "")
	chainID := fs.Int("chain", 2, "")
	budget := fs.Float64("budget", 30, "seconds")
	maxRuns := fs.Int("maxruns", 0, "")
	out := fs.String("out", "", "")
	replayDir := fs.String("replaydir", filepath.Join(verifRoot, "replays"), "")
	shrinkBudget := fs.Float64("shrink", 60, "seconds")
	fs.Parse(args)
	spec := chain.Registry[*prop]
	if spec == nil {
		fmt.Fprintln(os.Stderr, "unknown property", *prop)
		return 2
	}
	if spec.Worker != nil {
		kn := loadKnown()
		chain.IsKnown = func(sig string) bool { return kn.match(sig) != nil }
		return spec.Worker(chain.WorkerArgs{Prop: *prop, Tier: *tier, Base: *base, Offset: *offset, Stride: *stride, Chain: *chainID, Budget: *budget, MaxRuns: *maxRuns, Out: *out, ReplayDir: *replayDir})
	}
	f, err := os.Create(*out)
	if err != nil {
		fmt.Fprintln(os.Stderr, err)
		return 2
	}
	defer f.Close()
	bw := bufio.NewWriter(f)
	defer bw.Flush()
	known := loadKnown()
	chain.IsKnown = func(sig string) bool { return known.match(sig) != nil }
	deadline := time.Now().Add(time.Duration(*budget * float64(time.Second)))
	seenSig := map[string]bool{}
	runs := 0
	for k := *offset; time.Now().Before(deadline); k += *stride {
		if *maxRuns > 0 && runs >= *maxRuns {
			break
		}
		runs++
		seed := chain.SeedFor(*base, *prop, k)
		t0 := time.Now()
		sc := spec.Make(rand.New(rand.NewSource(seed)), seed, *chainID, *tier)
		w := runOne(spec, sc)
		rec := runRec{K: k, Seed: seed, Chain: *chainID, Blocks: w.Stats.Blocks, Planned: len(sc.Blocks), Txs: w.Stats.Txs, Accepted: w.Stats.Accepted,
			Faults: w.Stats.Faults, Probes: w.Stats.Probes, KnownSoft: w.Stats.Known, SimSec: w.Stats.SimSeconds, Hashes: w.Stats.Hashes, Trunc: w.Stats.Truncated}
		if w.Node != nil {
			rec.Digest = hex.EncodeToString(w.Node.Digest[:8])
		}
		if spec.Distinct != nil {
			rec.Distinct = spec.Distinct(w)
		}
		if runs <= 2 {
			rec.Sample = sampleOf(sc)
		}
		if w.InfraErr != nil {
			rec.Infra = w.InfraErr.Error()
		}
		if w.Viol != nil {
			sig := w.Viol.Sig()
			rec.Sig = sig
			rec.Detail = w.Viol.Detail
			if len(rec.Detail) > 1500 {
				rec.Detail = rec.Detail[:1500]
			}
			if known.match(sig) != nil {
				rec.Known = true
			} else if !seenSig[sig] {
				seenSig[sig] = true
				sb := *shrinkBudget
				if chain.Hung {
					sb = 0 // every candidate would cost a full call timeout and leave another spinning goroutine behind
				}
				min, tries := chain.Shrink(sc, sig, func(c *chain.Scenario) string { return sigOf(runOne(spec, c)) }, time.Duration(sb*float64(time.Second)))
				min.Expect = sig
				os.MkdirAll(*replayDir, 0o755)
				path := filepath.Join(*replayDir, fmt.Sprintf("%s-%d.json", *prop, seed))
				b, _ := json.MarshalIndent(min, "", " ")
				if err := os.WriteFile(path, b, 0o644); err != nil {
					rec.Infra = "cannot write replay: " + err.Error()
				}
				rec.Replay = path
				rec.ShrinkTries = tries
				// give the deadline back what shrinking consumed, at most once per signature
			}
		}
		rec.WallMs = time.Since(t0).Milliseconds()
		b, _ := json.Marshal(rec)
		bw.Write(b)
		bw.WriteByte('\n')
		bw.Flush()
		if chain.Hung {
			// a call of the application never returned and still occupies a processor: stop this worker
			f.Sync()
			os.Exit(0)
		}
	}
	return 0
}

func cmdReplay(args []string) int {
	fs := flag.NewFlagSet("replay", flag.ExitOnError)
	file := fs.String("file", "", "")
	verbose := fs.Bool("v", false, "")
	fs.Parse(args)
	if *file == "" && fs.NArg() > 0 {
		*file = fs.Arg(0)
	}
	b, err := os.ReadFile(*file)
	if err != nil {
		fmt.Fprintln(os.Stderr, err)
		return 2
	}
	var sc chain.Scenario
	if err := json.Unmarshal(b, &sc); err != nil {
		fmt.Fprintln(os.Stderr, err)
		return 2
	}
	spec := chain.Registry[sc.Prop]
	if spec == nil {
		fmt.Fprintln(os.Stderr, "unknown property", sc.Prop)
		return 2
	}
	if spec.Replay != nil {
		return spec.Replay(*file, *verbose)
	}
	// listed known findings are stepped over exactly as in the run that wrote the file, unless the
	// file is the replay of such a finding itself
	known := loadKnown()
	if known.match(sc.Expect) == nil {
		chain.IsKnown = func(sig string) bool { return known.match(sig) != nil }
	}
	w := runOne(spec, &sc)
	if w.InfraErr != nil {
		fmt.Println("INFRA", w.InfraErr)
		return 2
	}
	if w.Viol == nil {
		fmt.Println("REPLAY-PASS no violation; blocks", w.Stats.Blocks)
		return 0
	}
	fmt.Printf("REPLAY-VIOLATION sig=%s height=%d\n", w.Viol.Sig(), w.Viol.Height)
	if *verbose {
		fmt.Println(w.Viol.Detail)
	}
	if sc.Expect != "" && sc.Expect != w.Viol.Sig() {
		fmt.Println("REPLAY-DIFFERENT expected", sc.Expect)
		return 3
	}
	return 1
}

// cmdOne runs a single seed and prints the outcome (development aid).
func cmdOne(args []string) int {
	fs := flag.NewFlagSet("one", flag.ExitOnError)
	prop := fs.String("prop", "C01", "")
	tier := fs.String("tier", "quick", "")
	seed := fs.Int64("seed", 1, "")
	chainID := fs.Int("chain", 2, "")
	dump := fs.String("dump", "", "write the scenario to this file")
	fs.Parse(args)
	spec := chain.Registry[*prop]
	sc := spec.Make(rand.New(rand.NewSource(*seed)), *seed, *chainID, *tier)
	if *dump != "" {
		b, _ := json.MarshalIndent(sc, "", " ")
		os.WriteFile(*dump, b, 0o644)
	}
	t0 := time.Now()
	w := runOne(spec, sc)
	fmt.Printf("blocks=%d/%d txs=%d accepted=%d wall=%v infra=%v trunc=%q\n", w.Stats.Blocks, len(sc.Blocks), w.Stats.Txs, w.Stats.Accepted, time.Since(t0), w.InfraErr, w.Stats.Truncated)
	keys := []string{}
	for k, v := range w.Stats.ByKindCode {
		keys = append(keys, fmt.Sprintf("%s=%d", k, v))
	}
	sort.Strings(keys)
	fmt.Println(strings.Join(keys, " "))
	fmt.Println("faults", w.Stats.Faults, "probes", w.Stats.Probes)
	if w.Viol != nil {
		fmt.Println("VIOL", w.Viol.Sig())
		fmt.Println(w.Viol.Detail)
		return 1
	}
	return 0
}

type evidence struct {
	PropertyID string                 `json:"property_id"`
	Tier       string                 `json:"tier"`
	Seed       int64                  `json:"seed"`
	Level      string                 `json:"level"`
	Coverage   map[string]interface{} `json:"coverage"`
	Assumptions []string              `json:"assumptions"`
	WallS      float64                `json:"wall_s"`
	Violations int                    `json:"violations"`
}

func envInt(name string, def int64) int64 {
	if v := os.Getenv(name); v != "" {
		if n, err := strconv.ParseInt(v, 10, 64); err == nil {
			return n
		}
	}
	return def
}

func cmdRun(args []string) int {
	fs := flag.NewFlagSet("run", flag.ExitOnError)
	prop := fs.String("prop", "", "")
	tier := fs.String("tier", "quick", "")
	workers := fs.Int("workers", 16, "")
	budget := fs.Float64("budget", 0, "seconds per worker (0 = tier default)")
	fs.Parse(args)
	if t := os.Getenv("VERIF_TIER"); t == "quick" || t == "thorough" {
		// the command line decides; VERIF_TIER only informs default budgets
		_ = t
	}
	spec := chain.Registry[*prop]
	if spec == nil {
		fmt.Fprintln(os.Stderr, "unknown property", *prop)
		return 2
	}
	base := envInt("VERIF_SEED", 1)
	if *budget == 0 {
		*budget = 40
		if *tier == "thorough" {
			*budget = 540
		}
		if spec.Budget != nil {
			*budget = spec.Budget(*tier)
		}
	}
	start := time.Now()
	tmp, err := os.MkdirTemp("", "simcheck-"+*prop+"-")
	if err != nil {
		fmt.Fprintln(os.Stderr, err)
		return 2
	}
	defer os.RemoveAll(tmp)
	replayDir := filepath.Join(verifRoot, "replays")
	var wg sync.WaitGroup
	fails := make([]error, *workers)
	outs := make([]string, *workers)
	for i := 0; i < *workers; i++ {
		outs[i] = filepath.Join(tmp, fmt.Sprintf("w%d.jsonl", i))
		chainID := 2
		if i%4 == 3 {
			chainID = 1
		}
		if spec.ChainFor != nil {
			chainID = spec.ChainFor(i)
		}
		wg.Add(1)
		go func(i, chainID int) {
			defer wg.Done()
			cmd := exec.Command(os.Args[0], "worker", "-prop", *prop, "-tier", *tier, "-base", fmt.Sprint(base), "-offset", fmt.Sprint(i), "-stride", fmt.Sprint(*workers),
				"-chain", fmt.Sprint(chainID), "-budget", fmt.Sprint(*budget), "-out", outs[i], "-replaydir", replayDir)
			cmd.Stderr = os.Stderr
			cmd.Env = append(os.Environ(), "GOMAXPROCS=2")
			done := make(chan error, 1)
			go func() { done <- cmd.Run() }()
			select {
			case err := <-done:
				fails[i] = err
			case <-time.After(time.Duration((*budget*3+300)*float64(time.Second))):
				cmd.Process.Kill()
				fails[i] = fmt.Errorf("worker %d watchdog timeout", i)
			}
		}(i, chainID)
	}
	wg.Wait()
	for _, e := range fails {
		if e != nil {
			fmt.Fprintln(os.Stderr, "worker failure:", e)
			return 2
		}
	}
	// aggregate
	var recs []runRec
	for _, o := range outs {
		f, err := os.Open(o)
		if err != nil {
			fmt.Fprintln(os.Stderr, err)
			return 2
		}
		sc := bufio.NewScanner(f)
		sc.Buffer(make([]byte, 1<<20), 1<<26)
		for sc.Scan() {
			var r runRec
			if json.Unmarshal(sc.Bytes(), &r) == nil {
				recs = append(recs, r)
			}
		}
		f.Close()
	}
	extra := map[string]interface{}{"instrumented_build": chain.Instrumented}
	if other := os.Getenv("SIMCHECK_XCHECK"); other != "" {
		// fidelity / natural-order cross-check: the same seeds through the other binary (plain build,
		// Go's own map order) must give the same event-log digests
		n, bad, err := xcheck(*prop, base, other, 12)
		extra["cross_checked_seeds_against_plain_build"] = n
		if err != nil || bad != "" {
			fmt.Fprintf(os.Stderr, "INFRA: plain and instrumented builds disagree or could not be compared: %v %s\n", err, bad)
			finish(spec, *tier, base, recs, start, extra)
			return 2
		}
	}
	return finish(spec, *tier, base, recs, start, extra)
}

func digestsOf(bin, prop string, base int64, n int, dir string) ([]string, error) {
	out := filepath.Join(dir, filepath.Base(bin)+".jsonl")
	cmd := exec.Command(bin, "worker", "-prop", prop, "-tier", "quick", "-base", fmt.Sprint(base), "-offset", "0", "-stride", "1", "-chain", "2", "-budget", "900", "-maxruns", fmt.Sprint(n), "-out", out, "-replaydir", dir, "-shrink", "0")
	cmd.Stderr = os.Stderr
	if err := cmd.Run(); err != nil {
		return nil, err
	}
	f, err := os.Open(out)
	if err != nil {
		return nil, err
	}
	defer f.Close()
	var ds []string
	sc := bufio.NewScanner(f)
	sc.Buffer(make([]byte, 1<<20), 1<<26)
	for sc.Scan() {
		var r runRec
		json.Unmarshal(sc.Bytes(), &r)
		ds = append(ds, fmt.Sprintf("%d:%s:%d:%s", r.Seed, r.Digest, r.Blocks, r.Sig))
	}
	return ds, nil
}

func xcheck(prop string, base int64, other string, n int) (int, string, error) {
	tmp, err := os.MkdirTemp("", "xcheck-")
	if err != nil {
		return 0, "", err
	}
	defer os.RemoveAll(tmp)
	var a, b []string
	var ea, eb error
	var wg sync.WaitGroup
	wg.Add(2)
	go func() { defer wg.Done(); a, ea = digestsOf(os.Args[0], prop, base+7, n, tmp) }()
	go func() { defer wg.Done(); b, eb = digestsOf(other, prop, base+7, n, tmp) }()
	wg.Wait()
	if ea != nil || eb != nil {
		return 0, "", fmt.Errorf("%v %v", ea, eb)
	}
	if len(a) != n || len(b) != n {
		return 0, "", fmt.Errorf("got %d / %d runs, want %d", len(a), len(b), n)
	}
	violated := func(rec string) bool { // "<seed>:<digest>:<blocks>:<violation signature or empty>"
		j := strings.LastIndex(rec, ":")
		return j >= 0 && j+1 < len(rec)
	}
	for i := range a {
		if violated(a[i]) || violated(b[i]) {
			// a run that violates the property itself (e.g. map-order dependent state) cannot be expected to
			// give equal digests in two builds: such runs are the ordinary runs' business, not a fidelity issue
			continue
		}
		if a[i] != b[i] {
			return i, fmt.Sprintf("seed/digest/blocks %s (this build) vs %s (%s)", a[i], b[i], other), nil
		}
	}
	return n, "", nil
}

func finish(spec *chain.PropSpec, tier string, base int64, recs []runRec, start time.Time, extra map[string]interface{}) int {
	known := loadKnown()
	distinct := map[string]bool{}
	faults := map[string]int{}
	probes := map[string]int{}
	var blocks, txs, accepted, hashes int
	var simSec int64
	var samples []interface{}
	knownSeen := map[string]int{}
	newViol := map[string]runRec{}
	infra := []string{}
	trunc := map[string]int{}
	seedsList := []int64{}
	for _, r := range recs {
		for _, d := range r.Distinct {
			distinct[d] = true
		}
		for k, v := range r.Faults {
			faults[k] += v
		}
		for k, v := range r.Probes {
			probes[k] += v
		}
		for k, v := range r.KnownSoft {
			knownSeen[k] += v
		}
		blocks += r.Blocks
		txs += r.Txs
		accepted += r.Accepted
		hashes += r.Hashes
		simSec += r.SimSec
		if r.Sample != nil && len(samples) < 4 {
			samples = append(samples, r.Sample)
		}
		if len(seedsList) < 8 {
			seedsList = append(seedsList, r.Seed)
		}
		if r.Infra != "" {
			infra = append(infra, fmt.Sprintf("seed %d: %s", r.Seed, r.Infra))
		}
		if r.Trunc != "" {
			trunc[r.Trunc]++
		}
		if r.Sig != "" {
			if r.Known || known.match(r.Sig) != nil {
				knownSeen[r.Sig]++
				trunc["known finding"]++
			} else if _, ok := newViol[r.Sig]; !ok || (r.Replay != "" && newViol[r.Sig].Replay == "") {
				newViol[r.Sig] = r
			}
		}
	}
	wall := time.Since(start).Seconds()
	exit := 0
	if len(infra) > 0 {
		for _, s := range infra {
			fmt.Fprintln(os.Stderr, "INFRA:", s)
		}
		exit = 2
	}
	// known findings re-observed
	ks := []string{}
	for s := range knownSeen {
		ks = append(ks, s)
	}
	sort.Strings(ks)
	// one line per listed finding (several signatures may fall under one wildcard entry)
	type agg struct {
		f    *finding
		sigs []string
		n    int
	}
	byKey := map[string]*agg{}
	var keys []string
	for _, s := range ks {
		f := known.match(s)
		a := byKey[f.Key]
		if a == nil {
			a = &agg{f: f}
			byKey[f.Key] = a
			keys = append(keys, f.Key)
		}
		a.sigs = append(a.sigs, s)
		a.n += knownSeen[s]
	}
	for _, k := range keys {
		a := byKey[k]
		fmt.Printf("KNOWN-FINDING: property=%s %s (signatures %s, re-observed in %d runs)\n", a.f.Property, a.f.Description, strings.Join(a.sigs, ", "), a.n)
	}
	// confirm new violations in a fresh process
	nviol := 0
	sigs := []string{}
	for s := range newViol {
		sigs = append(sigs, s)
	}
	sort.Strings(sigs)
	for _, s := range sigs {
		r := newViol[s]
		if r.Replay == "" {
			fmt.Fprintf(os.Stderr, "INFRA: violation %s has no replay file (seed %d)\n", s, r.Seed)
			exit = 2
			continue
		}
		out, err := exec.Command(os.Args[0], "replay", "-file", r.Replay).CombinedOutput()
		code := 0
		if ee, ok := err.(*exec.ExitError); ok {
			code = ee.ExitCode()
		} else if err != nil {
			code = 2
		}
		if code != 1 {
			fmt.Fprintf(os.Stderr, "INFRA: violation %s (seed %d) did not reproduce from %s in a fresh process (exit %d): %s\n", s, r.Seed, r.Replay, code, strings.TrimSpace(string(out)))
			if exit == 0 {
				exit = 2
			}
			continue
		}
		pid := strings.SplitN(s, "/", 2)[0]
		fmt.Printf("VIOLATION property=%s replay=%s\n", pid, r.Replay)
		fmt.Printf("  signature: %s\n  found under check %s, seed %d\n  %s\n", s, spec.ID, r.Seed, strings.ReplaceAll(firstLines(r.Detail, 6), "\n", "\n  "))
		nviol++
		if exit != 2 {
			exit = 1
		}
	}
	zero := []string{}
	for _, p := range spec.ExpectProbes {
		if probes[p] == 0 {
			zero = append(zero, p)
		}
	}
	nd := len(distinct)
	cov := map[string]interface{}{
		"evaluations":         len(recs),
		"distinct_nontrivial": nd,
		"rule":                spec.Rule,
		"samples":             samples,
		"blocks_executed":     blocks,
		"transactions":        txs,
		"transactions_accepted": accepted,
		"simulated_seconds":   simSec,
		"distinct_app_hashes": hashes,
		"fault_fire_counts":   faults,
		"probe_counts":        probes,
		"probes_stuck_at_zero": zero,
		"runs_per_hour":       int(float64(len(recs)) / wall * 3600),
		"seeds_first":         seedsList,
		"truncated_runs":      trunc,
		"known_findings_reobserved": knownSeen,
		"real_components":     "coreV2/** (minter.Blockchain, state, transaction, appdb, events), formula, rlp, crypto, tree, IAVL v0.17.3, tendermint abci/types + types.ValidatorSet",
		"stubbed_components":  "Tendermint consensus/mempool/p2p (tmsim), goleveldb (simdb), gRPC transport, statistics",
	}
	if spec.ID == "C25" {
		cov["real_components"] = cov["real_components"].(string) + ", api/v2/service handlers (called directly, no gRPC transport)"
		cov["stubbed_components"] = cov["stubbed_components"].(string) + "; goroutine scheduling between the executor and API requests is decided by the simulator (tools/simrt cooperative scheduler: one task at a time, switches at lock points)"
	}
	if spec.ID == "C08" {
		cov["stubbed_components"] = cov["stubbed_components"].(string) + "; Go's randomised map iteration order is replaced by a seeded order at every range-over-map of coreV2/** and api/v2/service"
	}
	if len(samples) == 0 {
		cov["samples"] = []interface{}{"no run completed"}
	}
	for k, v := range extra {
		cov[k] = v
	}
	ev := evidence{PropertyID: spec.ID, Tier: tier, Seed: base, Level: spec.Level, Coverage: cov, WallS: wall, Violations: nviol,
		Assumptions: append([]string{"process-crash disk model (completed writes durable, batches atomic)", "IAVL/tm-db internals run real but un-instrumented", "search samples the space: a clean batch is evidence, not proof"}, spec.Assumptions...)}
	evDir := filepath.Join(verifRoot, "evidence")
	if d := os.Getenv("VERIF_EVIDENCE_DIR"); d != "" { // development aid: runs against a changed checkout must not overwrite the evidence of /repo
		evDir = d
	}
	os.MkdirAll(evDir, 0o755)
	b, _ := json.MarshalIndent(ev, "", " ")
	if err := os.WriteFile(filepath.Join(evDir, spec.ID+".json"), b, 0o644); err != nil {
		fmt.Fprintln(os.Stderr, err)
		return 2
	}
	fmt.Printf("%s %s: runs=%d blocks=%d txs=%d accepted=%d distinct=%d violations=%d known=%d wall=%.0fs\n", spec.ID, tier, len(recs), blocks, txs, accepted, nd, nviol, len(knownSeen), wall)
	if nd < 2 && exit == 0 {
		fmt.Fprintln(os.Stderr, "INFRA: fewer than 2 distinct non-trivial cases explored")
		return 2
	}
	return exit
}

func firstLines(s string, n int) string {
	l := strings.Split(s, "\n")
	if len(l) > n {
		l = l[:n]
	}
	return strings.Join(l, "\n")
}

// cmdSelftest: determinism — the same seeds in fresh processes under different GOMAXPROCS / GOGC
// must produce identical event-log digests.
func cmdSelftest(args []string) int {
	fs := flag.NewFlagSet("selftest", flag.ExitOnError)
	n := fs.Int("n", 8, "seeds per property")
	props := fs.String("props", "C01,C02", "")
	fs.Parse(args)
	type cfg struct{ procs, gogc string }
	cfgs := []cfg{{"1", "100"}, {"4", "20"}, {"16", "400"}}
	bad := 0
	tmp, _ := os.MkdirTemp("", "selftest-")
	defer os.RemoveAll(tmp)
	for _, p := range strings.Split(*props, ",") {
		var digests [][]string
		var wg sync.WaitGroup
		digests = make([][]string, len(cfgs))
		for ci, c := range cfgs {
			wg.Add(1)
			go func(ci int, c cfg) {
				defer wg.Done()
				out := filepath.Join(tmp, fmt.Sprintf("%s-%d.jsonl", p, ci))
				cmd := exec.Command(os.Args[0], "worker", "-prop", p, "-tier", "quick", "-base", "424242", "-offset", "0", "-stride", "1", "-chain", "2", "-budget", "600", "-maxruns", fmt.Sprint(*n), "-out", out, "-replaydir", tmp, "-shrink", "0")
				cmd.Env = append(os.Environ(), "GOMAXPROCS="+c.procs, "GOGC="+c.gogc)
				cmd.Stderr = os.Stderr
				if err := cmd.Run(); err != nil {
					fmt.Fprintln(os.Stderr, "selftest worker:", err)
				}
				f, _ := os.Open(out)
				defer f.Close()
				sc := bufio.NewScanner(f)
				sc.Buffer(make([]byte, 1<<20), 1<<26)
				for sc.Scan() {
					var r runRec
					json.Unmarshal(sc.Bytes(), &r)
					digests[ci] = append(digests[ci], fmt.Sprintf("%d:%s:%d:%s", r.Seed, r.Digest, r.Blocks, r.Sig))
				}
			}(ci, c)
		}
		wg.Wait()
		for ci := 1; ci < len(cfgs); ci++ {
			if len(digests[ci]) != *n || len(digests[0]) != *n {
				fmt.Printf("selftest %s: config %d produced %d runs, config 0 %d (want %d)\n", p, ci, len(digests[ci]), len(digests[0]), *n)
				bad++
				continue
			}
			for i := range digests[0] {
				if digests[0][i] != digests[ci][i] {
					fmt.Printf("NONDETERMINISM %s: %s vs %s (GOMAXPROCS %s/%s)\n", p, digests[0][i], digests[ci][i], cfgs[0].procs, cfgs[ci].procs)
					bad++
				}
			}
		}
		fmt.Printf("selftest %s: %d seeds x %d configurations compared\n", p, *n, len(cfgs))
	}
	if bad > 0 {
		return 2
	}
	return 0
}
