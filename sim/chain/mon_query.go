package chain

import (
	"context"
	"fmt"
	"math/rand"

	"github.com/MinterTeam/minter-go-node/api/v2/service"
	"github.com/MinterTeam/minter-go-node/coreV2/rewards"
	"github.com/MinterTeam/minter-go-node/coreV2/types"
	pb "github.com/MinterTeam/node-grpc-gateway/api_pb"
)

// Querier issues read-only API requests against a node through the real api/v2 service handlers
// (constructed without RPC client and Tendermint node; the handlers used do not touch them).
type Querier struct {
	n       *Node
	svc     *service.Service
	Panics  map[string]int // handler panics (the gRPC recovery middleware would answer Internal)
	Calls   map[string]int
	Errors  int
}

func NewQuerier(n *Node) *Querier {
	return &Querier{n: n, svc: service.NewService(n.App, nil, nil, tmConfig(n.Cfg), "sim", rewards.NewReward()), Panics: map[string]int{}, Calls: map[string]int{}}
}

// Query runs one request chosen by x against the view; h = 0 reads the current (mid-block) state,
// otherwise a committed height.
func (q *Querier) Query(v *View, x int64, committed uint64) {
	r := rand.New(rand.NewSource(x))
	ctx := context.Background()
	h := uint64(0)
	if r.Intn(3) == 0 {
		h = committed
	}
	addr := v.acct(int64(r.Intn(v.NAcct + 2))).String()
	if r.Intn(10) == 0 {
		addr = v.acct(-int64(1 + r.Intn(20))).String()
	}
	coin := uint64(v.coinAny(int64(r.Intn(50))))
	coin2 := uint64(v.coinAny(int64(r.Intn(50))))
	if r.Intn(12) == 0 {
		coin2 = 777777
	}
	pk := v.cand(int64(r.Intn(40))).String()
	if r.Intn(10) == 0 {
		pk = v.cand(-3).String()
	}
	amount := Amt{Mode: 0, M: uint64(1 + r.Intn(999)), E: r.Intn(26)}.resolve(nil).String()
	kinds := []string{"Address", "Addresses", "Candidate", "Candidates", "CoinInfoById", "SwapPool", "SwapPools", "LimitOrders", "LimitOrdersOfPool", "BestTrade", "EstimateCoinSell", "EstimateCoinBuy", "EstimateCoinSellAll", "WaitList", "Frozen", "FrozenAll", "MissedBlocks", "Export"}
	kind := kinds[r.Intn(len(kinds))]
	q.Calls[kind]++
	defer func() {
		if rec := recover(); rec != nil {
			q.Panics[kind]++
		}
	}()
	var err error
	switch kind {
	case "Address":
		_, err = q.svc.Address(ctx, &pb.AddressRequest{Address: addr, Height: h, Delegated: r.Intn(2) == 0})
	case "Addresses":
		_, err = q.svc.Addresses(ctx, &pb.AddressesRequest{Addresses: []string{addr, v.acct(int64(r.Intn(v.NAcct))).String()}, Height: h, Delegated: r.Intn(2) == 0})
	case "Candidate":
		_, err = q.svc.Candidate(ctx, &pb.CandidateRequest{PublicKey: pk, Height: h, NotShowStakes: r.Intn(2) == 0})
	case "Candidates":
		_, err = q.svc.Candidates(ctx, &pb.CandidatesRequest{Height: h, IncludeStakes: r.Intn(2) == 0, NotShowStakes: r.Intn(3) == 0, Status: pb.CandidatesRequest_CandidateStatus(r.Intn(4))})
	case "CoinInfoById":
		_, err = q.svc.CoinInfoById(ctx, &pb.CoinIdRequest{Id: coin, Height: h})
	case "SwapPool":
		_, err = q.svc.SwapPool(ctx, &pb.SwapPoolRequest{Coin0: coin, Coin1: coin2, Height: h})
	case "SwapPools":
		_, err = q.svc.SwapPools(ctx, &pb.SwapPoolsRequest{Height: h, Orders: r.Intn(2) == 0})
	case "LimitOrders":
		ids := v.orderIDs()
		var pick []uint64
		for i := 0; i < 3 && len(ids) > 0; i++ {
			pick = append(pick, ids[r.Intn(len(ids))])
		}
		pick = append(pick, uint64(r.Intn(50)))
		_, err = q.svc.LimitOrders(ctx, &pb.LimitOrdersRequest{Ids: pick, Height: h})
	case "LimitOrdersOfPool":
		c0, c1 := v.pool(int64(r.Intn(20)))
		_, err = q.svc.LimitOrdersOfPool(ctx, &pb.LimitOrdersOfPoolRequest{SellCoin: uint64(c0), BuyCoin: uint64(c1), Limit: int32(r.Intn(30)), Height: h})
	case "BestTrade":
		_, err = q.svc.BestTrade(ctx, &pb.BestTradeRequest{SellCoin: coin, BuyCoin: coin2, Amount: amount, Type: pb.BestTradeRequest_Type(r.Intn(2)), Height: h, MaxDepth: int32(r.Intn(6))})
	case "EstimateCoinSell":
		rt := v.route(int64(r.Intn(30)), 2+r.Intn(4))
		var route []uint64
		for _, c := range rt[1 : len(rt)-1] {
			route = append(route, uint64(c))
		}
		_, err = q.svc.EstimateCoinSell(ctx, &pb.EstimateCoinSellRequest{Sell: &pb.EstimateCoinSellRequest_CoinIdToSell{CoinIdToSell: uint64(rt[0])}, Buy: &pb.EstimateCoinSellRequest_CoinIdToBuy{CoinIdToBuy: uint64(rt[len(rt)-1])},
			ValueToSell: amount, Height: h, Commission: &pb.EstimateCoinSellRequest_CoinIdCommission{CoinIdCommission: coin}, SwapFrom: pb.SwapFrom(r.Intn(3)), Route: route})
	case "EstimateCoinBuy":
		rt := v.route(int64(r.Intn(30)), 2+r.Intn(4))
		var route []uint64
		for _, c := range rt[1 : len(rt)-1] {
			route = append(route, uint64(c))
		}
		_, err = q.svc.EstimateCoinBuy(ctx, &pb.EstimateCoinBuyRequest{Sell: &pb.EstimateCoinBuyRequest_CoinIdToSell{CoinIdToSell: uint64(rt[0])}, Buy: &pb.EstimateCoinBuyRequest_CoinIdToBuy{CoinIdToBuy: uint64(rt[len(rt)-1])},
			ValueToBuy: amount, Height: h, Commission: &pb.EstimateCoinBuyRequest_CoinIdCommission{CoinIdCommission: coin}, SwapFrom: pb.SwapFrom(r.Intn(3)), Route: route})
	case "EstimateCoinSellAll":
		_, err = q.svc.EstimateCoinSellAll(ctx, &pb.EstimateCoinSellAllRequest{Sell: &pb.EstimateCoinSellAllRequest_CoinIdToSell{CoinIdToSell: coin}, Buy: &pb.EstimateCoinSellAllRequest_CoinIdToBuy{CoinIdToBuy: coin2},
			ValueToSell: amount, GasPrice: uint64(r.Intn(3)), Height: h, SwapFrom: pb.SwapFrom(r.Intn(3))})
	case "WaitList":
		_, err = q.svc.WaitList(ctx, &pb.WaitListRequest{PublicKey: pk, Address: addr, Height: h})
	case "Frozen":
		_, err = q.svc.Frozen(ctx, &pb.FrozenRequest{Address: addr, Height: h})
	case "FrozenAll":
		_, err = q.svc.FrozenAll(ctx, &pb.FrozenAllRequest{StartHeight: committed, EndHeight: committed + uint64(r.Intn(600)), Height: h})
	case "MissedBlocks":
		_, err = q.svc.MissedBlocks(ctx, &pb.MissedBlocksRequest{PublicKey: pk, Height: h})
	case "Export":
		// what an exporter does: open the committed height and export it
		cs, e := q.n.App.GetStateForHeight(committed)
		if e == nil {
			_ = cs.Export()
		}
		err = e
	}
	if err != nil {
		q.Errors++
	}
}

// MonC25A: read-only queries and CheckTx calls injected between the ABCI calls of a block (they read
// the mid-block state the API shares with the executor) must not change any response or app hash:
// a reference node without any query is fed the same blocks.
type MonC25A struct {
	NopMonitor
	ref     *Twin
	q       *Querier
	classes map[string]bool
	x       int64
}

func (m *MonC25A) Genesis(w *World) {
	t, cerr := NewTwinFromGenesis(w)
	if cerr != nil {
		w.InfraErr = fmt.Errorf("reference twin: %v", cerr)
		return
	}
	m.ref = t
	m.q = NewQuerier(w.Node)
	m.classes = map[string]bool{}
	m.x = w.Sc.Seed
	w.MidBlock = func(phase string, b *BlockCtx) { m.burst(w, b, phase) }
}

func (m *MonC25A) burst(w *World, b *BlockCtx, phase string) {
	if m.q == nil || len(b.Op.Queries) == 0 {
		return
	}
	v := &View{S: w.Prev, Height: uint64(b.Height), NAcct: w.Sc.Gen.NAcct, Chain: w.Chain, NonceAdd: map[types.Address]uint64{}, Log: w.Log}
	for i, qx := range b.Op.Queries {
		if (int(qx)+i)%4 != phaseIndex(phase) {
			continue
		}
		if qx%7 == 0 && len(w.Log) > 0 {
			// a CheckTx of some earlier transaction bytes (mempool traffic while the block executes)
			tx := w.Log[int(qx/7)%len(w.Log)].Bytes
			if _, cerr := w.Node.Check(tx); cerr != nil {
				w.Report("C25", "queries", "checktx-panics@"+cerr.Site, fmt.Sprintf("height %d (%s): CheckTx panicked: %v\n%s", b.Height, phase, cerr, trimStack(cerr.Stack)), b.Height)
				return
			}
			w.Probe("c25_checktx_interleaved")
			continue
		}
		m.q.Query(v, qx^int64(b.Height)<<8, w.Prev.Height)
		w.Probe("c25_query_" + phase)
		m.classes[phase] = true
	}
}

func phaseIndex(p string) int {
	switch p {
	case "after-begin":
		return 0
	case "between-txs":
		return 1
	case "after-end":
		return 2
	}
	return 3
}

func (m *MonC25A) AfterBlock(w *World, b *BlockCtx) {
	if m.ref == nil || b.Cur == nil || w.Viol != nil {
		return
	}
	m.burst(w, b, "after-commit")
	res := m.ref.Node.ExecBlock(b.Req, nil)
	if cls, d := CompareBlock(&b.Res, &res); cls != "" {
		extra := ""
		if c2, d2 := DiskStateDiff(m.ref.Disk, w.Disk, uint64(b.Height), nil, false); c2 != "" {
			extra = "; first durable difference (reference -> queried): " + c2 + ": " + d2
		}
		w.Report("C25", "queries", "perturbed:"+cls, fmt.Sprintf("height %d: the node that served read-only queries between its ABCI calls differs from the reference without queries: %s%s; queries so far: %v, handler panics: %v", b.Height, d, extra, m.q.Calls, m.q.Panics), b.Height)
		return
	}
	w.Probe("c25_block_compared")
}

func (m *MonC25A) Finish(w *World) {
	if m.ref != nil {
		m.ref.Node.Release()
	}
	for k, n := range m.q.Panics {
		w.Stats.Probes["c25_handler_panic_"+k] += n
	}
}

func init() {
	register(&PropSpec{ID: "C25", Level: "exploration",
		Rule: "TIER A (deterministic, single goroutine): bursts of read-only API requests through the real api/v2 service handlers (Address(es), Candidate(s), CoinInfo, SwapPool(s), LimitOrder(s), BestTrade both directions, EstimateCoinSell/Buy/SellAll over bancor / pool / optimal, WaitList, Frozen, MissedBlocks, export of a committed height) and CheckTx calls are placed after BeginBlock, between DeliverTx calls, after EndBlock and after Commit, on the current (mid-block, shared with the executor) and on committed states; a reference node without any query executes the same blocks; every response and app hash must be equal; distinct non-trivial case = distinct (handler, phase) pair exercised",
		Make: func(r *rand.Rand, seed int64, chain int, tier string) *Scenario {
			p := GeneralProfile()
			sc := baseScenario("C25", r, seed, chain, tier, p, func(g *GenCfg, n *NodeCfg) {
				g.NPool = 2 + r.Intn(4)
				n.KeepLast = []int64{0, 1, 5}[r.Intn(3)]
			})
			for i := range sc.Blocks {
				n := r.Intn(14)
				for k := 0; k < n; k++ {
					sc.Blocks[i].Queries = append(sc.Blocks[i].Queries, int64(r.Intn(1<<30)))
				}
			}
			return sc
		},
		Monitors: func(sc *Scenario) []Monitor { return []Monitor{&MonC25A{}} },
		Distinct: func(w *World) []string {
			for _, m := range w.Monitors {
				if c, ok := m.(*MonC25A); ok && c.q != nil {
					var out []string
					for k := range c.q.Calls {
						for ph := range c.classes {
							out = append(out, k+"/"+ph)
						}
					}
					return out
				}
			}
			return nil
		},
		ExpectProbes: []string{"c25_block_compared", "c25_query_after-begin", "c25_query_between-txs", "c25_query_after-end", "c25_query_after-commit", "c25_checktx_interleaved"},
		Assumptions: []string{"tier A places queries at ABCI call boundaries in the executor's own goroutine (fully deterministic); interleavings at lock points inside a call are not explored by this tier"},
	})
}
