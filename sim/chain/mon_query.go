package chain

import (
	"context"
	"fmt"
	"math/rand"
	"os"
	"runtime/debug"
	"strings"
	"time"

	"github.com/MinterTeam/minter-go-node/api/v2/service"
	"github.com/MinterTeam/minter-go-node/coreV2/rewards"
	"github.com/MinterTeam/minter-go-node/coreV2/types"
	pb "github.com/MinterTeam/node-grpc-gateway/api_pb"
)

// Querier issues read-only API requests against a node through the real api/v2 service handlers
// (constructed without RPC client and Tendermint node; the handlers used do not touch them).
type Querier struct {
	n       *Node
	svc     *service.Service
	Panics  map[string]int // handler panics (the gRPC recovery middleware would answer Internal)
	Calls   map[string]int
	Errors  int
	Recent  []string // kinds of the latest requests, oldest first (diagnostics)
}

func NewQuerier(n *Node) *Querier {
	return &Querier{n: n, svc: service.NewService(n.App, nil, nil, tmConfig(n.Cfg), "sim", rewards.NewReward()), Panics: map[string]int{}, Calls: map[string]int{}}
}

// Query runs one request chosen by x against the view; h = 0 reads the current (mid-block) state,
// otherwise a committed height.
func (q *Querier) Query(v *View, x int64, committed uint64) {
	r := rand.New(rand.NewSource(x))
	ctx := context.Background()
	h := uint64(0)
	if r.Intn(3) == 0 {
		h = committed
	}
	addr := v.acct(int64(r.Intn(v.NAcct + 2))).String()
	if r.Intn(10) == 0 {
		addr = v.acct(-int64(1 + r.Intn(20))).String()
	}
	coin := uint64(v.coinAny(int64(r.Intn(50))))
	coin2 := uint64(v.coinAny(int64(r.Intn(50))))
	if r.Intn(12) == 0 {
		coin2 = 777777
	}
	pk := v.cand(int64(r.Intn(40))).String()
	if r.Intn(10) == 0 {
		pk = v.cand(-3).String()
	}
	amount := Amt{Mode: 0, M: uint64(1 + r.Intn(999)), E: r.Intn(26)}.resolve(nil).String()
	kinds := []string{"Address", "Addresses", "Candidate", "Candidates", "CoinInfoById", "SwapPool", "SwapPools", "LimitOrders", "LimitOrdersOfPool", "BestTrade", "EstimateCoinSell", "EstimateCoinBuy", "EstimateCoinSellAll", "WaitList", "Frozen", "FrozenAll", "MissedBlocks", "Export"}
	kind := kinds[r.Intn(len(kinds))]
	if only := os.Getenv("SIM_QKINDS"); only != "" { // development aid: restrict the handlers used
		if !strings.Contains(","+only+",", ","+kind+",") {
			return
		}
	}
	q.Calls[kind]++
	q.Recent = append(q.Recent, fmt.Sprintf("%s(h=%d)", kind, h))
	if len(q.Recent) > 12 {
		q.Recent = q.Recent[len(q.Recent)-12:]
	}
	defer func() {
		if rec := recover(); rec != nil {
			q.Panics[kind]++
			if os.Getenv("SIM_TRACE") != "" {
				fmt.Fprintf(os.Stderr, "TRACE handler %s panics: %v\n%s\n", kind, rec, repoFrames(string(debug.Stack()), 10))
			}
		}
	}()
	var err error
	switch kind {
	case "Address":
		_, err = q.svc.Address(ctx, &pb.AddressRequest{Address: addr, Height: h, Delegated: r.Intn(2) == 0})
	case "Addresses":
		_, err = q.svc.Addresses(ctx, &pb.AddressesRequest{Addresses: []string{addr, v.acct(int64(r.Intn(v.NAcct))).String()}, Height: h, Delegated: r.Intn(2) == 0})
	case "Candidate":
		_, err = q.svc.Candidate(ctx, &pb.CandidateRequest{PublicKey: pk, Height: h, NotShowStakes: r.Intn(2) == 0})
	case "Candidates":
		_, err = q.svc.Candidates(ctx, &pb.CandidatesRequest{Height: h, IncludeStakes: r.Intn(2) == 0, NotShowStakes: r.Intn(3) == 0, Status: pb.CandidatesRequest_CandidateStatus(r.Intn(4))})
	case "CoinInfoById":
		_, err = q.svc.CoinInfoById(ctx, &pb.CoinIdRequest{Id: coin, Height: h})
	case "SwapPool":
		_, err = q.svc.SwapPool(ctx, &pb.SwapPoolRequest{Coin0: coin, Coin1: coin2, Height: h})
	case "SwapPools":
		_, err = q.svc.SwapPools(ctx, &pb.SwapPoolsRequest{Height: h, Orders: r.Intn(2) == 0})
	case "LimitOrders":
		ids := v.orderIDs()
		var pick []uint64
		for i := 0; i < 3 && len(ids) > 0; i++ {
			pick = append(pick, ids[r.Intn(len(ids))])
		}
		pick = append(pick, uint64(r.Intn(50)))
		_, err = q.svc.LimitOrders(ctx, &pb.LimitOrdersRequest{Ids: pick, Height: h})
	case "LimitOrdersOfPool":
		c0, c1 := v.pool(int64(r.Intn(20)))
		_, err = q.svc.LimitOrdersOfPool(ctx, &pb.LimitOrdersOfPoolRequest{SellCoin: uint64(c0), BuyCoin: uint64(c1), Limit: int32(r.Intn(30)), Height: h})
	case "BestTrade":
		_, err = q.svc.BestTrade(ctx, &pb.BestTradeRequest{SellCoin: coin, BuyCoin: coin2, Amount: amount, Type: pb.BestTradeRequest_Type(r.Intn(2)), Height: h, MaxDepth: int32(r.Intn(6))})
	case "EstimateCoinSell":
		rt := v.route(int64(r.Intn(30)), 2+r.Intn(4))
		var route []uint64
		for _, c := range rt[1 : len(rt)-1] {
			route = append(route, uint64(c))
		}
		_, err = q.svc.EstimateCoinSell(ctx, &pb.EstimateCoinSellRequest{Sell: &pb.EstimateCoinSellRequest_CoinIdToSell{CoinIdToSell: uint64(rt[0])}, Buy: &pb.EstimateCoinSellRequest_CoinIdToBuy{CoinIdToBuy: uint64(rt[len(rt)-1])},
			ValueToSell: amount, Height: h, Commission: &pb.EstimateCoinSellRequest_CoinIdCommission{CoinIdCommission: coin}, SwapFrom: pb.SwapFrom(r.Intn(3)), Route: route})
	case "EstimateCoinBuy":
		rt := v.route(int64(r.Intn(30)), 2+r.Intn(4))
		var route []uint64
		for _, c := range rt[1 : len(rt)-1] {
			route = append(route, uint64(c))
		}
		_, err = q.svc.EstimateCoinBuy(ctx, &pb.EstimateCoinBuyRequest{Sell: &pb.EstimateCoinBuyRequest_CoinIdToSell{CoinIdToSell: uint64(rt[0])}, Buy: &pb.EstimateCoinBuyRequest_CoinIdToBuy{CoinIdToBuy: uint64(rt[len(rt)-1])},
			ValueToBuy: amount, Height: h, Commission: &pb.EstimateCoinBuyRequest_CoinIdCommission{CoinIdCommission: coin}, SwapFrom: pb.SwapFrom(r.Intn(3)), Route: route})
	case "EstimateCoinSellAll":
		_, err = q.svc.EstimateCoinSellAll(ctx, &pb.EstimateCoinSellAllRequest{Sell: &pb.EstimateCoinSellAllRequest_CoinIdToSell{CoinIdToSell: coin}, Buy: &pb.EstimateCoinSellAllRequest_CoinIdToBuy{CoinIdToBuy: coin2},
			ValueToSell: amount, GasPrice: uint64(r.Intn(3)), Height: h, SwapFrom: pb.SwapFrom(r.Intn(3))})
	case "WaitList":
		_, err = q.svc.WaitList(ctx, &pb.WaitListRequest{PublicKey: pk, Address: addr, Height: h})
	case "Frozen":
		_, err = q.svc.Frozen(ctx, &pb.FrozenRequest{Address: addr, Height: h})
	case "FrozenAll":
		_, err = q.svc.FrozenAll(ctx, &pb.FrozenAllRequest{StartHeight: committed, EndHeight: committed + uint64(r.Intn(600)), Height: h})
	case "MissedBlocks":
		_, err = q.svc.MissedBlocks(ctx, &pb.MissedBlocksRequest{PublicKey: pk, Height: h})
	case "Export":
		// what an exporter does: open the committed height and export it
		cs, e := q.n.App.GetStateForHeight(committed)
		if e == nil {
			_ = cs.Export()
		}
		err = e
	}
	if err != nil {
		q.Errors++
	}
}

// MonC25A: read-only queries and CheckTx calls injected between the ABCI calls of a block (they read
// the mid-block state the API shares with the executor) must not change any response or app hash:
// a reference node without any query is fed the same blocks.
type MonC25A struct {
	NopMonitor
	ref     *Twin
	q       *Querier
	classes map[string]bool
	x       int64
}

func (m *MonC25A) Genesis(w *World) {
	t, cerr := NewTwinFromGenesis(w)
	if cerr != nil {
		w.InfraErr = fmt.Errorf("reference twin: %v", cerr)
		return
	}
	m.ref = t
	m.q = NewQuerier(w.Node)
	m.classes = map[string]bool{}
	m.x = w.Sc.Seed
	w.MidBlock = func(phase string, b *BlockCtx) { m.burst(w, b, phase) }
}

func (m *MonC25A) burst(w *World, b *BlockCtx, phase string) {
	if m.q == nil || len(b.Op.Queries) == 0 {
		return
	}
	v := &View{S: w.Prev, Height: uint64(b.Height), NAcct: w.Sc.Gen.NAcct, Chain: w.Chain, NonceAdd: map[types.Address]uint64{}, Log: w.Log}
	for i, qx := range b.Op.Queries {
		if (int(qx)+i)%4 != phaseIndex(phase) {
			continue
		}
		if qx%7 == 0 && len(w.Log) > 0 {
			// a CheckTx of some earlier transaction bytes (mempool traffic while the block executes)
			tx := w.Log[int(qx/7)%len(w.Log)].Bytes
			if _, cerr := w.Node.Check(tx); cerr != nil {
				w.Report("C25", "queries", "checktx-panics@"+cerr.Site, fmt.Sprintf("height %d (%s): CheckTx panicked: %v\n%s", b.Height, phase, cerr, trimStack(cerr.Stack)), b.Height)
				return
			}
			w.Probe("c25_checktx_interleaved")
			continue
		}
		m.q.Query(v, qx^int64(b.Height)<<8, w.Prev.Height)
		w.Probe("c25_query_" + phase)
		m.classes[phase] = true
	}
}

func phaseIndex(p string) int {
	switch p {
	case "after-begin":
		return 0
	case "between-txs":
		return 1
	case "after-end":
		return 2
	}
	return 3
}

func (m *MonC25A) AfterBlock(w *World, b *BlockCtx) {
	if m.ref == nil || b.Cur == nil || w.Viol != nil {
		return
	}
	m.burst(w, b, "after-commit")
	res := m.ref.Node.ExecBlock(b.Req, nil)
	if cls, d := CompareBlock(&b.Res, &res); cls != "" {
		extra := ""
		if c2, d2 := DiskStateDiff(m.ref.Disk, w.Disk, uint64(b.Height), nil, false); c2 != "" {
			extra = "; first durable difference (reference -> queried): " + c2 + ": " + d2
		}
		w.Report("C25", "queries", "perturbed:"+cls, fmt.Sprintf("height %d: the node that served read-only queries between its ABCI calls differs from the reference without queries: %s%s; queries so far: %v, handler panics: %v", b.Height, d, extra, m.q.Calls, m.q.Panics), b.Height)
		return
	}
	w.Probe("c25_block_compared")
}

func (m *MonC25A) Finish(w *World) {
	if m.ref != nil {
		m.ref.Node.Release()
	}
	for k, n := range m.q.Panics {
		w.Stats.Probes["c25_handler_panic_"+k] += n
	}
}

// MonC25B (instrumented build only): TIER B. The body of an ABCI call of the main node runs as task 0
// of simrt's cooperative scheduler together with 1..3 query tasks (real api/v2 handlers, CheckTx);
// a task switch is possible at every lock point of coreV2/** and api/v2/service, the next task is
// drawn from the run's PRNG, so one seed is one interleaving. Oracles: no task panics, no deadlock
// (every live task waiting for a lock held by a parked one), and - through MonC25A's reference twin -
// every response and app hash equal to a node that served no queries.
type MonC25B struct {
	NopMonitor
	q       *Querier
	r       *rand.Rand
	classes map[string]bool
	calls   int
}

func (m *MonC25B) Genesis(w *World) {
	if !Instrumented || w.Node == nil {
		return
	}
	m.q = NewQuerier(w.Node)
	m.r = rand.New(rand.NewSource(w.Sc.Seed ^ 0x25b))
	m.classes = map[string]bool{}
	w.Node.Inter = func(name string, f func()) { m.interleave(w, name, f) }
}

func (m *MonC25B) interleave(w *World, name string, f func()) {
	m.calls++
	p := 0.2
	switch name {
	case "Commit":
		p = 0.6
	case "EndBlock", "BeginBlock":
		p = 0.35
	case "InitChain", "Info", "CheckTx":
		p = 0
	}
	if w.Prev == nil || m.r.Float64() >= p {
		f()
		return
	}
	h := int64(w.Prev.Height) + 1
	v := &View{S: w.Prev, Height: uint64(h), NAcct: w.Sc.Gen.NAcct, Chain: w.Chain, NonceAdd: map[types.Address]uint64{}, Log: w.Log}
	nq := 1 + m.r.Intn(3)
	fs := []func(){f}
	for k := 0; k < nq; k++ {
		var xs []int64
		for j := 1 + m.r.Intn(3); j > 0; j-- {
			xs = append(xs, int64(m.r.Intn(1<<30)))
		}
		fs = append(fs, func() {
			for _, x := range xs {
				// (no CheckTx here: with Tendermint's local ABCI client all ABCI calls share one mutex, so
				// CheckTx never overlaps another ABCI call; API handlers do)
				m.q.Query(v, x, w.Prev.Height)
			}
		})
	}
	m.q.Recent = nil
	res := runInterleaved(func(n int) int { return m.r.Intn(n) }, fs, 60*time.Second)
	if os.Getenv("SIM_TRACE") != "" {
		fmt.Fprintf(os.Stderr, "TRACE h=%d tierB %s tasks=%d switches=%d points=%d blocked=%d trace=%.60s queries=%v panics=%v\n", h, name, len(fs), res.Switches, res.Points, res.Blocked, res.Trace, m.q.Recent, res.Panics)
	}
	w.Stats.Probes["c25b_lock_points"] += res.Points
	w.Stats.Probes["c25b_task_switches"] += res.Switches
	w.Stats.Probes["c25b_waits_for_parked_lock_holder"] += res.Blocked
	w.Probe("c25b_interleaved_" + name)
	m.classes[name] = true
	if res.Stalled {
		w.InfraErr = fmt.Errorf("C25 tier B: the running task reached no lock point for 60 s inside %s at height %d (uninstrumented blocking call?)", name, h)
		return
	}
	if res.Deadlock {
		where := ""
		for _, c := range res.Cycle {
			head := c
			if j := strings.Index(c, "\n"); j > 0 {
				head = c[:j]
			}
			where += "\n-- " + head + "\n" + repoFrames(c, 8)
		}
		tr := res.Trace
		if len(tr) > 80 {
			tr = "..." + tr[len(tr)-80:]
		}
		w.Report("C25", "queries", "deadlock@"+name, fmt.Sprintf("height %d: %s interleaved with %d query task(s) at lock points: every live task waits for a lock held by a parked task; requests %v; interleaving %s%s", h, name, nq, m.q.Recent, tr, where), h)
	} else {
		for i := range res.Done {
			if !res.Done[i] && !res.Stalled {
				w.InfraErr = fmt.Errorf("C25 tier B: scheduler returned with task %d unfinished", i)
			}
		}
	}
	for i := 1; i < len(res.Panics); i++ {
		if res.Panics[i] != nil && !res.Deadlock {
			w.Report("C25", "queries", "query-task-panics@"+topRepoFrame(res.Stacks[i]), fmt.Sprintf("height %d: query task interleaved with %s panicked: %v\n%s", h, name, res.Panics[i], trimStack(res.Stacks[i])), h)
		}
	}
	if res.Panics[0] != nil {
		if w.Viol == nil {
			w.Report("C25", "queries", "executor-panics@"+name+"@"+topRepoFrame(res.Stacks[0]), fmt.Sprintf("height %d: %s panicked while interleaved with %d query task(s) (interleaving %s; requests started: %v): %v\n%s", h, name, nq, res.Trace, m.q.Recent, res.Panics[0], trimStack(res.Stacks[0])), h)
		}
		panic(relayedPanic{V: res.Panics[0], Stack: res.Stacks[0]})
	}
}

func init() {
	register(&PropSpec{ID: "C25", Level: "exploration",
		Rule: "TIER B (instrumented build): ABCI call bodies run under a seeded cooperative scheduler with 1..3 query tasks, switches at every lock point of coreV2/** and api/v2/service; no panic, no lock cycle, results equal to the query-free reference. TIER A (deterministic, single goroutine): bursts of read-only API requests through the real api/v2 service handlers (Address(es), Candidate(s), CoinInfo, SwapPool(s), LimitOrder(s), BestTrade both directions, EstimateCoinSell/Buy/SellAll over bancor / pool / optimal, WaitList, Frozen, MissedBlocks, export of a committed height) and CheckTx calls are placed after BeginBlock, between DeliverTx calls, after EndBlock and after Commit, on the current (mid-block, shared with the executor) and on committed states; a reference node without any query executes the same blocks; every response and app hash must be equal; distinct non-trivial case = distinct (handler, phase) pair exercised",
		Make: func(r *rand.Rand, seed int64, chain int, tier string) *Scenario {
			p := GeneralProfile()
			sc := baseScenario("C25", r, seed, chain, tier, p, func(g *GenCfg, n *NodeCfg) {
				g.NPool = 2 + r.Intn(4)
				n.KeepLast = []int64{0, 1, 5}[r.Intn(3)]
			})
			for i := range sc.Blocks {
				n := r.Intn(14)
				for k := 0; k < n; k++ {
					sc.Blocks[i].Queries = append(sc.Blocks[i].Queries, int64(r.Intn(1<<30)))
				}
			}
			return sc
		},
		Monitors: func(sc *Scenario) []Monitor {
			if Instrumented {
				return []Monitor{&MonC25A{}, &MonC25B{}}
			}
			return []Monitor{&MonC25A{}}
		},
		Distinct: func(w *World) []string {
			for _, m := range w.Monitors {
				if c, ok := m.(*MonC25A); ok && c.q != nil {
					var out []string
					for k := range c.q.Calls {
						for ph := range c.classes {
							out = append(out, k+"/"+ph)
						}
					}
					return out
				}
			}
			return nil
		},
		ExpectProbes: []string{"c25_block_compared", "c25_query_after-begin", "c25_query_between-txs", "c25_query_after-end", "c25_query_after-commit", "c25_checktx_interleaved", "c25b_interleaved_BeginBlock", "c25b_interleaved_DeliverTx", "c25b_interleaved_EndBlock", "c25b_interleaved_Commit", "c25b_task_switches", "c25b_waits_for_parked_lock_holder"},
		Assumptions: []string{"tier A places queries at ABCI call boundaries in the executor's own goroutine; tier B switches tasks only at instrumented lock points (one task runs at a time), so data races on unlocked memory are not observed as such - only their effect on results, panics and lock cycles", "CheckTx is never interleaved inside another ABCI call: Tendermint's local ABCI client serialises them"},
	})
}

// repoFrames keeps the first n frames of a stack dump that belong to the repository.
func repoFrames(st string, n int) string {
	var out []string
	lines := strings.Split(st, "\n")
	for i := 0; i+1 < len(lines) && len(out) < n; i++ {
		l := lines[i]
		if strings.Contains(l, "github.com/MinterTeam/minter-go-node/") && !strings.Contains(l, "/simrt.") && !strings.HasPrefix(l, "\t") {
			loc := strings.TrimSpace(lines[i+1])
			if j := strings.LastIndex(loc, "/repo/"); j >= 0 {
				loc = loc[j+6:]
			}
			if j := strings.Index(loc, " +0x"); j >= 0 {
				loc = loc[:j]
			}
			fn := l
			if j := strings.LastIndex(fn, "("); j > 0 {
				fn = fn[:j]
			}
			out = append(out, "   "+strings.TrimPrefix(fn, "github.com/MinterTeam/minter-go-node/")+"  "+loc)
		}
	}
	return strings.Join(out, "\n")
}
