//go:build !instr

package chain

import "time"

// schedResult mirrors simrt.RunResult for builds without lock-point instrumentation.
type schedResult struct {
	Panics   []interface{}
	Stacks   []string
	WaitAt   []string
	Done     []bool
	Deadlock bool
	Cycle    []string
	Stalled  bool
	Switches int
	Points   int
	Blocked  int
	Trace    string
}

// runInterleaved without instrumentation runs the tasks one after the other (no lock points exist).
func runInterleaved(choose func(int) int, fs []func(), stall time.Duration) schedResult {
	res := schedResult{Panics: make([]interface{}, len(fs)), Stacks: make([]string, len(fs)), WaitAt: make([]string, len(fs)), Done: make([]bool, len(fs))}
	for _, f := range fs {
		f()
	}
	return res
}
