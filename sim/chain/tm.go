package chain

import (
	"fmt"
	"time"

	"github.com/MinterTeam/minter-go-node/coreV2/types"
	abci "github.com/tendermint/tendermint/abci/types"
	tmtypes "github.com/tendermint/tendermint/types"
)

// TM is the part of Tendermint the application can observe: heights, block time, the validator set
// with its two-block update delay (real tendermint/types.ValidatorSet), votes and evidence.
type TM struct {
	Next    int64 // next height to execute
	Now     time.Time
	last    *tmtypes.ValidatorSet // validators of Next-1 (they sign the LastCommit of block Next)
	cur     *tmtypes.ValidatorSet // validators of Next
	next    *tmtypes.ValidatorSet // validators of Next+1
	First   int64
	Rejects []string // validator updates Tendermint would have refused (consensus failure)
	Empty   bool     // the application removed every validator: the chain cannot continue
}

// NewTM starts the simulated consensus from the InitChain response.
func NewTM(initial int64, genesisTime time.Time, reqVals []abci.ValidatorUpdate, resp abci.ResponseInitChain) (*TM, error) {
	vals := resp.Validators
	if len(vals) == 0 {
		vals = reqVals
	}
	tv, err := tmtypes.PB2TM.ValidatorUpdates(vals)
	if err != nil {
		return nil, err
	}
	if len(tv) == 0 {
		return nil, fmt.Errorf("empty initial validator set")
	}
	set := tmtypes.NewValidatorSet(tv)
	return &TM{Next: initial, First: initial, Now: genesisTime, last: nil, cur: set, next: set.Copy()}, nil
}

// Clone copies the consensus state (for twins).
func (t *TM) Clone() *TM {
	c := *t
	if t.last != nil {
		c.last = t.last.Copy()
	}
	c.cur = t.cur.Copy()
	c.next = t.next.Copy()
	c.Rejects = append([]string{}, t.Rejects...)
	return &c
}

// Voters is the set whose signatures appear in LastCommitInfo of the next block.
func (t *TM) Voters() []*tmtypes.Validator {
	if t.last == nil {
		return nil
	}
	return t.last.Validators
}

// CurVals returns the validators of the block being built.
func (t *TM) CurVals() []*tmtypes.Validator { return t.cur.Validators }

// Votes builds LastCommitInfo.Votes for the next block.
func (t *TM) Votes(bo *BlockOp) []abci.VoteInfo {
	if bo.NoVotes {
		return nil
	}
	vs := t.Voters()
	absent := map[int]bool{}
	for _, a := range bo.Absent {
		if len(vs) > 0 && a < len(vs)+2 {
			absent[a] = true
		}
	}
	var out []abci.VoteInfo
	for i, v := range vs {
		out = append(out, abci.VoteInfo{Validator: abci.Validator{Address: v.Address, Power: v.VotingPower}, SignedLastBlock: !(bo.AllAbsent || absent[i])})
	}
	if bo.DupVote && len(out) > 0 {
		out = append(out, out[0])
	}
	for _, x := range bo.ExtraVotes {
		a := TmAddr(ValKey(7000 + mod(x, 100)))
		out = append(out, abci.VoteInfo{Validator: abci.Validator{Address: a[:], Power: 1 + x%5}, SignedLastBlock: x%2 == 0})
	}
	return out
}

// Evidence resolves evidence selectors.
func (t *TM) Evidence(bo *BlockOp, s *Snap) []abci.Evidence {
	var out []abci.Evidence
	for _, e := range bo.Evidence {
		var addr []byte
		var power int64 = 1
		switch e.Kind {
		case 0:
			vs := t.cur.Validators
			v := vs[mod(e.Idx, len(vs))]
			addr, power = v.Address, v.VotingPower
		case 1:
			if len(s.Cands) == 0 {
				continue
			}
			a := TmAddr(s.Cands[mod(e.Idx, len(s.Cands))].PubKey)
			addr = a[:]
		default:
			a := TmAddr(ValKey(5000 + int(e.Idx)))
			addr = a[:]
		}
		out = append(out, abci.Evidence{Type: abci.EvidenceType_DUPLICATE_VOTE, Validator: abci.Validator{Address: addr, Power: power},
			Height: t.Next - 1, Time: t.Now, TotalVotingPower: t.cur.TotalVotingPower()})
	}
	return out
}

// Advance moves the clock for the next block.
func (t *TM) Advance(dt int64) { t.Now = t.Now.Add(time.Duration(dt) * time.Second) }

// EndBlock applies the validator updates the way Tendermint's state execution does
// (updates returned at height h take effect at h+2). An update list Tendermint would refuse is
// recorded in Rejects and leaves the sets unchanged.
func (t *TM) EndBlock(updates []abci.ValidatorUpdate) error {
	nn := t.next.Copy()
	var err error
	if len(updates) > 0 {
		for _, u := range updates {
			if u.Power < 0 {
				err = fmt.Errorf("voting power can't be negative %v", u)
			}
		}
		var tv []*tmtypes.Validator
		if err == nil {
			tv, err = tmtypes.PB2TM.ValidatorUpdates(updates)
		}
		if err == nil {
			err = nn.UpdateWithChangeSet(tv)
		}
		if err != nil {
			if nn2 := t.next.Copy(); onlyRemovals(updates) && len(updates) >= nn2.Size() {
				// every validator left (all switched off / punished): the network is dead, which is
				// what the application's answer says; not a malformed update list
				t.Empty = true
				err = nil
			} else {
				t.Rejects = append(t.Rejects, fmt.Sprintf("h=%d: %v", t.Next, err))
			}
			nn = t.next.Copy()
		}
	}
	nn.IncrementProposerPriority(1)
	t.last, t.cur, t.next = t.cur, t.next, nn
	t.Next++
	return err
}

// PowerOf returns the voting power of a public key in the set of the block being built.
func (t *TM) PowerOf(pk types.Pubkey) int64 {
	a := TmAddr(pk)
	_, v := t.cur.GetByAddress(a[:])
	if v == nil {
		return 0
	}
	return v.VotingPower
}

func onlyRemovals(u []abci.ValidatorUpdate) bool {
	for _, x := range u {
		if x.Power != 0 {
			return false
		}
	}
	return true
}
