package chain

import (
	"bytes"
	"fmt"
	"math/rand"
	"os"

	"chainsim/simdb"

	"github.com/cosmos/cosmos-sdk/snapshots"
	abci "github.com/tendermint/tendermint/abci/types"
)

// EnableSnapshots attaches the real cosmos snapshot store (metadata in the simulated snapshot DB,
// chunk files in dir) and the node's snapshot manager.
func (n *Node) EnableSnapshots(dir string, interval, keep int) error {
	st, err := snapshots.NewStore(n.Disk.Store("snapshot"), dir)
	if err != nil {
		return err
	}
	n.App.SetSnapshotStore(st, interval, keep)
	return nil
}

// syncNode is a node restored from a snapshot and then fed the same blocks as the reference.
type syncNode struct {
	t      *Twin
	from   int64
	dir    string
	blocks int
	evh    []uint64
}

// MonC29: state-sync snapshots are identical on every producer and a restored node behaves like one
// that executed every block.
type MonC29 struct {
	NopMonitor
	Interval int
	After    int
	dirs     []string
	prodB    *Twin // second producer, restarted at some earlier height
	restartB int64
	synced   []*syncNode
	classes  map[string]bool
	dead     bool
}

func (m *MonC29) tmp(w *World) string {
	d, err := os.MkdirTemp("", "simsnap-")
	if err != nil {
		w.InfraErr = err
		return ""
	}
	m.dirs = append(m.dirs, d)
	return d
}

func (m *MonC29) cleanup() {
	for _, d := range m.dirs {
		os.RemoveAll(d)
	}
	m.dirs = nil
}

func (m *MonC29) Genesis(w *World) {
	m.classes = map[string]bool{}
	w.Cleanup = append(w.Cleanup, m.cleanup)
	if m.After == 0 {
		m.After = 6
	}
	keep := 2
	if w.Sc.Params["snap_keep"] != 0 {
		keep = int(w.Sc.Params["snap_keep"])
	}
	if err := w.Node.EnableSnapshots(m.tmp(w), m.Interval, keep); err != nil {
		w.InfraErr = err
		return
	}
	// the snapshot goroutine started by Commit is waited for right after every commit (serialised mode)
	w.AfterCommit = func() { w.Node.App.VerifWaitSnapshot() }
	t, cerr := NewTwinFromGenesis(w)
	if cerr != nil {
		w.InfraErr = fmt.Errorf("producer B genesis: %v", cerr)
		return
	}
	if err := t.Node.EnableSnapshots(m.tmp(w), m.Interval, keep); err != nil {
		w.InfraErr = err
		return
	}
	m.prodB = t
	m.restartB = w.Sc.Params["restart_b"]
}

func snapshotAt(n *Node, h uint64) *abci.Snapshot {
	var out *abci.Snapshot
	n.call("ListSnapshots", func() {
		for _, s := range n.App.ListSnapshots(abci.RequestListSnapshots{}).Snapshots {
			if s.Height == h {
				out = s
			}
		}
	})
	return out
}

func (m *MonC29) AfterBlock(w *World, b *BlockCtx) {
	if b.Cur == nil || w.Viol != nil || m.dead {
		return
	}
	h := uint64(b.Height)
	// ---- producer B follows, with one restart ----
	if m.prodB != nil {
		if m.restartB != 0 && b.Height == w.Sc.InitialH+m.restartB {
			if cerr := m.prodB.Restart(); cerr != nil {
				w.Report("C07", "no-panic", "restart:"+cerr.Call+"@"+cerr.Site, cerr.Error(), b.Height)
				return
			}
			keep := 2
			if w.Sc.Params["snap_keep"] != 0 {
				keep = int(w.Sc.Params["snap_keep"])
			}
			if err := m.prodB.Node.EnableSnapshots(m.dirs[1], m.Interval, keep); err != nil {
				w.InfraErr = err
				return
			}
			w.Fault("restart")
		}
		res := m.prodB.Node.ExecBlock(b.Req, nil)
		m.prodB.Node.App.VerifWaitSnapshot()
		if cls, d := CompareBlock(&b.Res, &res); cls != "" {
			w.Report("C09", "restart-equivalence", cls, "second snapshot producer: "+d, b.Height)
			return
		}
	}
	// ---- nodes already restored follow the chain ----
	keep := m.synced[:0]
	for _, s := range m.synced {
		res := s.t.Node.ExecBlock(b.Req, nil)
		if res.Err == nil {
			s.t.Node.App.VerifWaitSnapshot() // the restored node takes snapshots too
		}
		if res.Err != nil {
			w.Report("C29", "state-sync", "restored-node-panics", fmt.Sprintf("node restored from the snapshot of height %d panics in block %d: %v\n%s", s.from, b.Height, res.Err, trimStack(res.Err.Stack)), b.Height)
			return
		}
		if cls, d := CompareBlock(&b.Res, &res); cls != "" {
			extra := ""
			if cls == "app-hash" {
				if c2, d2 := DiskStateDiff(w.Disk, s.t.Disk, h, nil, false); c2 != "" {
					extra = "; first durable difference: " + c2 + ": " + d2
				}
			}
			w.Report("C29", "state-sync", "after-restore:"+cls, fmt.Sprintf("node restored from the snapshot of height %d, block %d: %s%s", s.from, b.Height, d, extra), b.Height)
			return
		}
		s.blocks++
		s.evh = append(s.evh, h)
		w.Probe("c29_block_after_restore")
		if s.blocks >= m.After || uint64(b.Height)%w.Sc.Node.Period == 0 && s.blocks >= 2 {
			if cls, d := DiskStateDiff(w.Disk, s.t.Disk, h, s.evh, !w.Sc.Node.ValidatorMode); cls != "" {
				w.Report("C29", "state-sync", "queries:"+cls, fmt.Sprintf("node restored from the snapshot of height %d, after block %d: %s", s.from, b.Height, d), b.Height)
				return
			}
			if x, y := w.Node.App.GetEmission(), s.t.Node.App.GetEmission(); x.Cmp(y) != 0 {
				w.Report("C29", "state-sync", "queries:emission", fmt.Sprintf("restored node reports emission %s, reference %s", y, x), b.Height)
				return
			}
			if cls, d := HotColdDiff(s.t.Node, b.Cur); cls != "" {
				w.Report("C29", "state-sync", "queries:"+cls, "restored node: "+d, b.Height)
				return
			}
			w.Probe("c29_queries_compared")
		}
		if s.blocks < m.After {
			keep = append(keep, s)
		} else {
			s.t.Node.Release()
		}
	}
	m.synced = keep
	if m.Interval == 0 || h%uint64(m.Interval) != 0 {
		return
	}
	// ---- a snapshot was due at this height on both producers ----
	sa := snapshotAt(w.Node, h)
	if sa == nil {
		w.Report("C29", "state-sync", "snapshot-missing", fmt.Sprintf("height %d: the producing node lists no snapshot for this height", b.Height), b.Height)
		return
	}
	if !bytes.Equal(sa.Hash, sa.Hash) || sa.Chunks == 0 {
		w.Report("C29", "state-sync", "snapshot-empty", fmt.Sprintf("height %d: snapshot with %d chunks", b.Height, sa.Chunks), b.Height)
		return
	}
	if m.prodB != nil {
		sb := snapshotAt(m.prodB.Node, h)
		if sb == nil {
			w.Report("C29", "state-sync", "snapshot-missing-on-second-producer", fmt.Sprintf("height %d: the second producer lists no snapshot", b.Height), b.Height)
			return
		}
		if sa.Format != sb.Format || sa.Chunks != sb.Chunks || !bytes.Equal(sa.Hash, sb.Hash) || !bytes.Equal(sa.Metadata, sb.Metadata) {
			w.Report("C29", "state-sync", "producers-differ", fmt.Sprintf("height %d: snapshots of two nodes that committed the same height differ: chunks %d/%d hash %x/%x", b.Height, sa.Chunks, sb.Chunks, sa.Hash, sb.Hash), b.Height)
			return
		}
		for i := uint32(0); i < sa.Chunks; i++ {
			ca := w.Node.App.LoadSnapshotChunk(abci.RequestLoadSnapshotChunk{Height: h, Format: sa.Format, Chunk: i}).Chunk
			cb := m.prodB.Node.App.LoadSnapshotChunk(abci.RequestLoadSnapshotChunk{Height: h, Format: sa.Format, Chunk: i}).Chunk
			if !bytes.Equal(ca, cb) || len(ca) == 0 {
				w.Report("C29", "state-sync", "chunks-differ", fmt.Sprintf("height %d chunk %d: %d vs %d bytes", b.Height, i, len(ca), len(cb)), b.Height)
				return
			}
		}
		w.Probe("c29_producers_equal")
	}
	if len(m.synced) >= 2 {
		return
	}
	// ---- restore a fresh node through a faulty chunk transport ----
	r := rand.New(rand.NewSource(w.Sc.Seed ^ int64(h)))
	t := &Twin{Disk: simdb.NewDisk(), Cfg: w.Sc.Node}
	n, cerr := OpenNode(t.Disk, t.Cfg)
	if cerr != nil {
		w.InfraErr = fmt.Errorf("fresh node: %v", cerr)
		return
	}
	t.Node = n
	if err := n.EnableSnapshots(m.tmp(w), m.Interval, 2); err != nil {
		w.InfraErr = err
		return
	}
	var offer abci.ResponseOfferSnapshot
	if cerr := n.call("OfferSnapshot", func() { offer = n.App.OfferSnapshot(abci.RequestOfferSnapshot{Snapshot: sa, AppHash: b.Res.Hash}) }); cerr != nil {
		w.Report("C07", "no-panic", "OfferSnapshot@"+cerr.Site, cerr.Error()+"\n"+trimStack(cerr.Stack), b.Height)
		return
	}
	if offer.Result != abci.ResponseOfferSnapshot_ACCEPT {
		w.Report("C29", "state-sync", "offer-refused", fmt.Sprintf("height %d: a fresh node answers %v to the producer's snapshot", b.Height, offer.Result), b.Height)
		return
	}
	for i := uint32(0); i < sa.Chunks; i++ {
		good := w.Node.App.LoadSnapshotChunk(abci.RequestLoadSnapshotChunk{Height: h, Format: sa.Format, Chunk: i}).Chunk
		if r.Intn(2) == 0 && len(good) > 4 {
			// a corrupted copy from a bad peer must be refused with RETRY, never accepted
			bad := append([]byte{}, good...)
			bad[r.Intn(len(bad))] ^= 0x5a
			var ar abci.ResponseApplySnapshotChunk
			if cerr := n.call("ApplySnapshotChunk", func() { ar = n.App.ApplySnapshotChunk(abci.RequestApplySnapshotChunk{Index: i, Chunk: bad, Sender: "badpeer"}) }); cerr != nil {
				w.Report("C07", "no-panic", "ApplySnapshotChunk@"+cerr.Site, cerr.Error(), b.Height)
				return
			}
			w.Fault("corrupt_chunk")
			if ar.Result != abci.ResponseApplySnapshotChunk_RETRY {
				w.Report("C29", "state-sync", "corrupt-chunk-not-refused", fmt.Sprintf("height %d chunk %d: a corrupted chunk got answer %v", b.Height, i, ar.Result), b.Height)
				return
			}
			m.classes["corrupt-chunk-refused"] = true
		}
		var ar abci.ResponseApplySnapshotChunk
		if cerr := n.call("ApplySnapshotChunk", func() { ar = n.App.ApplySnapshotChunk(abci.RequestApplySnapshotChunk{Index: i, Chunk: good, Sender: "peer"}) }); cerr != nil {
			w.Report("C07", "no-panic", "ApplySnapshotChunk@"+cerr.Site, cerr.Error()+"\n"+trimStack(cerr.Stack), b.Height)
			return
		}
		if ar.Result != abci.ResponseApplySnapshotChunk_ACCEPT {
			w.Report("C29", "state-sync", "chunk-refused", fmt.Sprintf("height %d chunk %d of %d: answer %v", b.Height, i, sa.Chunks, ar.Result), b.Height)
			return
		}
	}
	ih, ihash, cerr := n.Info()
	if cerr != nil {
		w.Report("C07", "no-panic", "Info@"+cerr.Site, cerr.Error(), b.Height)
		return
	}
	if ih != b.Height || !bytes.Equal(ihash, b.Res.Hash) {
		w.Report("C29", "state-sync", "info-after-restore", fmt.Sprintf("restored node reports height %d hash %x, the producer committed %d %x", ih, ihash, b.Height, b.Res.Hash), b.Height)
		return
	}
	if cls, d := DiskStateDiff(w.Disk, t.Disk, h, nil, false); cls != "" {
		w.Report("C29", "state-sync", "restored-state:"+cls, fmt.Sprintf("height %d: durable state of the restored node differs from the producer: %s", b.Height, d), b.Height)
		return
	}
	m.classes[fmt.Sprintf("restored/phase%d", h%w.Sc.Node.Period)] = true
	w.Probe("c29_restored")
	m.synced = append(m.synced, &syncNode{t: t, from: b.Height})
}

func (m *MonC29) Finish(w *World) {
	for _, s := range m.synced {
		s.t.Node.Release()
	}
	if m.prodB != nil {
		m.prodB.Node.Release()
	}
	m.cleanup()
}

func init() {
	register(&PropSpec{ID: "C29", Level: "exploration",
		Rule: "two snapshot producers (the reference node and a second node restarted at an earlier height) run the real cosmos snapshot manager over the simulated disk with a seeded interval; at every snapshot height metadata and chunks must be identical; a fresh node is restored through a chunk transport that injects corrupted chunks (must be answered RETRY), must report the producer's height and app hash, equal durable state, and from the next block on equal responses, app hashes and queries (export, emission, versions, validators, price, events) across payout and price-update blocks; distinct non-trivial case = distinct phase of the snapshot height within the stake period, plus fault classes",
		Make: func(r *rand.Rand, seed int64, chain int, tier string) *Scenario {
			p := GeneralProfile()
			p.PClockJump = 0.06
			sc := baseScenario("C29", r, seed, chain, tier, p, func(g *GenCfg, n *NodeCfg) {
				n.KeepLast = []int64{1, 5, 120}[r.Intn(3)]
			})
			sc.Params = map[string]int64{"snap_interval": int64(3 + r.Intn(9)), "restart_b": int64(2 + r.Intn(10)), "snap_keep": int64(1 + r.Intn(3))}
			if len(sc.Blocks) > 45 && tier != "thorough" {
				sc.Blocks = sc.Blocks[:45]
			}
			return sc
		},
		Monitors: func(sc *Scenario) []Monitor { return []Monitor{&MonC29{Interval: int(sc.Params["snap_interval"])}} },
		Distinct: func(w *World) []string {
			for _, m := range w.Monitors {
				if c, ok := m.(*MonC29); ok {
					c.cleanup()
					var out []string
					for k := range c.classes {
						out = append(out, k)
					}
					return out
				}
			}
			return nil
		},
		ExpectProbes: []string{"c29_producers_equal", "c29_restored", "c29_block_after_restore", "c29_queries_compared"},
		Assumptions: []string{"snapshot goroutines are awaited after every commit (serialised mode); the cosmos snapshot manager's internal goroutines run real but their outcome is schedule-independent", "chunk files live in a per-run temporary directory on the real file system (removed after the run)"},
	})
}
