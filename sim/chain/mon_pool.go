package chain

import (
	"fmt"
	"github.com/MinterTeam/minter-go-node/coreV2/state/swap"
	"github.com/MinterTeam/minter-go-node/rlp"
	"math/big"
	"math/rand"
	"sort"
	"strings"

	eventsdb "github.com/MinterTeam/minter-go-node/coreV2/events"
	"github.com/MinterTeam/minter-go-node/coreV2/transaction"
	"github.com/MinterTeam/minter-go-node/coreV2/types"
)

// ---------------- C13: swap pools never lose value to traders ----------------

type MonC13 struct {
	NopMonitor
	lpLocked map[uint64]*big.Int // LP coin id -> zero-address balance last seen
	classes  map[string]bool
}

func (m *MonC13) Genesis(w *World) {
	m.lpLocked, m.classes = map[uint64]*big.Int{}, map[string]bool{}
	m.checkLocked(w, w.Prev, w.Sc.InitialH-1)
}

func lpCoinOf(s *Snap, p *types.Pool) *types.Coin {
	sym := transaction.LiquidityCoinSymbol(uint32(p.ID))
	for _, id := range s.CoinIDs {
		if c := s.Coins[id]; c.Symbol == sym && c.Version == 0 {
			return c
		}
	}
	return nil
}

func (m *MonC13) checkLocked(w *World, s *Snap, h int64) {
	for _, p := range s.Pools {
		lp := lpCoinOf(s, p)
		if lp == nil {
			w.Report("C13", "pool-value", "no-lp-token", fmt.Sprintf("height %d: pool %d (%d,%d) has no pool token", h, p.ID, p.Coin0, p.Coin1), h)
			return
		}
		z := s.Balance(types.Address{}, lp.ID)
		if z.Cmp(big.NewInt(1000)) < 0 {
			w.Report("C13", "pool-value", "minimum-liquidity-unlocked", fmt.Sprintf("height %d: zero address holds %s of pool token %s, the creation lock is 1000", h, z, lp.Symbol), h)
			return
		}
		if old := m.lpLocked[lp.ID]; old != nil && z.Cmp(old) < 0 {
			w.Report("C13", "pool-value", "locked-liquidity-decreased", fmt.Sprintf("height %d: zero-address balance of pool token %s fell from %s to %s", h, lp.Symbol, old, z), h)
			return
		}
		m.lpLocked[lp.ID] = z
	}
}

func poolByCoins(s *Snap, c0, c1 uint64) *types.Pool {
	if c0 > c1 {
		c0, c1 = c1, c0
	}
	for _, p := range s.Pools {
		if p.Coin0 == c0 && p.Coin1 == c1 {
			return p
		}
	}
	return nil
}

func (m *MonC13) AfterBlock(w *World, b *BlockCtx) {
	if b.Cur == nil || w.Viol != nil {
		return
	}
	m.checkLocked(w, b.Cur, b.Height)
	if w.Viol != nil {
		return
	}
	// pools whose liquidity was changed on purpose in this block
	touched := map[string]bool{}
	for i, mm := range b.Metas {
		if i >= len(b.Res.Deliver) || b.Res.Deliver[i].Code != 0 {
			continue
		}
		switch d := mm.Data.(type) {
		case transaction.AddLiquidityDataV260:
			touched[pairKey(uint64(d.Coin0), uint64(d.Coin1))] = true
		case transaction.RemoveLiquidityV240:
			touched[pairKey(uint64(d.Coin0), uint64(d.Coin1))] = true
		case transaction.CreateSwapPoolData:
			touched[pairKey(uint64(d.Coin0), uint64(d.Coin1))] = true
		}
		if mm.Garbage || mm.Malleated {
			return // a mutated copy may be any liquidity transaction
		}
	}
	for _, p := range b.Prev.Pools {
		k := pairKey(p.Coin0, p.Coin1)
		q := poolByCoins(b.Cur, p.Coin0, p.Coin1)
		if q == nil {
			w.Report("C13", "pool-value", "pool-vanished", fmt.Sprintf("height %d: pool %d (%s) disappeared", b.Height, p.ID, k), b.Height)
			return
		}
		if touched[k] {
			continue
		}
		k0 := new(big.Int).Mul(bi(p.Reserve0), bi(p.Reserve1))
		k1 := new(big.Int).Mul(bi(q.Reserve0), bi(q.Reserve1))
		if k1.Cmp(k0) < 0 {
			cls := "plain"
			if len(p.Orders) > 0 || len(q.Orders) > 0 {
				cls = "with-orders"
			}
			w.Report("C13", "pool-value", "product-decreased:"+cls, fmt.Sprintf("height %d: pool %d (%s) reserves %s x %s -> %s x %s: the product fell in a block without liquidity changes; txs: %s", b.Height, p.ID, k, p.Reserve0, p.Reserve1, q.Reserve0, q.Reserve1, txSummary(b)), b.Height)
			return
		}
		if k1.Cmp(k0) > 0 {
			if len(p.Orders) > 0 {
				m.classes["traded-with-orders"] = true
				w.Probe("c13_traded_pool_with_orders")
			} else {
				m.classes["traded"] = true
			}
			w.Probe("c13_traded_pool")
		}
	}
	w.Probe("c13_block_checked")
}

func pairKey(a, b uint64) string {
	if a > b {
		a, b = b, a
	}
	return fmt.Sprintf("%d-%d", a, b)
}

// OracleC13 judges single liquidity transactions on their counterfactual diff.
type OracleC13 struct{}

func (OracleC13) Judge(w *World, b *BlockCtx, p *ProbeResult) {
	m := p.Meta
	if p.Resp.Code != 0 || m.Garbage || m.Malleated || m.Dup {
		return
	}
	commission := tagInt(p, "tx.commission_amount")
	if commission == nil {
		return
	}
	adj := func(coin uint64, d *big.Int) *big.Int { // balance change without the commission
		if coin == m.GasCoin {
			return new(big.Int).Add(d, commission)
		}
		return d
	}
	switch d := m.Data.(type) {
	case transaction.RemoveLiquidityV240:
		pl := poolByCoins(p.Before, uint64(d.Coin0), uint64(d.Coin1))
		if pl == nil || ownsOrder(p.Before, m.Sender) {
			return
		}
		// tight minimums (counterfactual variants): the same removal asking for exactly what it really
		// returned must go through, and asking for one unit more must be refused - without a panic, and
		// with CheckTx and DeliverTx agreeing - also when the commission is swapped through this pool
		if v0, ok0 := new(big.Int).SetString(p.Tags["tx.volume0"], 10); ok0 && p.Variant != nil {
			if v1, ok1 := new(big.Int).SetString(p.Tags["tx.volume1"], 10); ok1 {
				try := func(min0, min1 *big.Int, mustPass bool, what string) bool {
					alt := Resign(m, w.Sc.Gen.NAcct, func(tx *transaction.Transaction) bool {
						dd := d
						dd.MinimumVolume0, dd.MinimumVolume1 = min0, min1
						enc, err := rlp.EncodeToBytes(dd)
						if err != nil {
							return false
						}
						tx.Data = enc
						return true
					})
					if alt == nil {
						return true
					}
					vr := p.Variant(alt, true)
					if vr == nil {
						return true
					}
					if vr.Err != nil {
						w.Report("C07", "no-panic", "tight-minimum:"+vr.Phase+"@"+vr.Err.Site, fmt.Sprintf("height %d remove-liquidity %s (really returned %s / %s; CheckTx code %d): %s panics: %v\n%s", p.Height, what, v0, v1, vr.CheckCode, vr.Phase, vr.Err, trimStack(vr.Err.Stack)), p.Height)
						return false
					}
					if (vr.CheckCode == 0) != (vr.Resp.Code == 0) && vr.CheckCode != 113 && vr.CheckCode != 114 {
						w.Report("C06", "check-deliver", "tight-minimum:remliq", fmt.Sprintf("height %d remove-liquidity %s: CheckTx answers %d, DeliverTx on the same state %d", p.Height, what, vr.CheckCode, vr.Resp.Code), p.Height)
						return false
					}
					if mustPass && vr.Resp.Code != 0 {
						// conservative refusal: not what C13 / C06 speak about as long as CheckTx agrees
						w.Probe("c13_remove_tight_minimum_exact_refused")
					}
					if !mustPass && vr.Resp.Code == 0 {
						g0, ok0 := new(big.Int).SetString(vr.Tags["tx.volume0"], 10)
						g1, ok1 := new(big.Int).SetString(vr.Tags["tx.volume1"], 10)
						if (ok0 && g0.Cmp(min0) < 0) || (ok1 && g1.Cmp(min1) < 0) {
							w.Report("C13", "pool-value", "tight-minimum-ignored", fmt.Sprintf("height %d: removal asking for at least %s / %s is accepted and returns %s / %s", p.Height, min0, min1, g0, g1), p.Height)
							return false
						}
					}
					return true
				}
				if (p.Height+int64(p.Index))%2 == 0 {
					if !try(v0, v1, true, "asking for exactly what it returned") {
						return
					}
					if !try(new(big.Int).Add(v0, big.NewInt(1)), v1, false, "asking for one unit more of the first coin") {
						return
					}
					if !try(new(big.Int).Add(v0, big.NewInt(1)), big.NewInt(0), false, "asking for one unit more of the first coin and nothing of the second") {
						return
					}
					if !try(big.NewInt(0), new(big.Int).Add(v1, big.NewInt(1)), false, "asking for nothing of the first coin and one unit more of the second") {
						return
					}
					w.Probe("c13_remove_tight_minimum_checked")
				}
			}
		}
		if m.GasCoin != 0 && (m.GasCoin == pl.Coin0 || m.GasCoin == pl.Coin1) && p.Tags["tx.commission_conversion"] == "pool" {
			w.Probe("c13_skipped_commission_through_same_pool")
			return // the commission swap moves this pool's reserves before the removal
		}
		lp := lpCoinOf(p.Before, pl)
		if lp == nil {
			return
		}
		supply := bi(lp.Volume)
		for i, coin := range []uint64{pl.Coin0, pl.Coin1} {
			res := bi(pl.Reserve0)
			if i == 1 {
				res = bi(pl.Reserve1)
			}
			share := new(big.Int).Div(new(big.Int).Mul(d.Liquidity, res), supply)
			got := adj(coin, balDelta(p, m.Sender, coin))
			if got.Cmp(share) > 0 {
				w.Report("C13", "pool-value", "remove-above-share", fmt.Sprintf("height %d: removing %s of %s pool tokens from pool %d returned %s of coin %d, the proportional share of reserve %s is %s", p.Height, d.Liquidity, supply, pl.ID, got, coin, res, share), p.Height)
				return
			}
		}
		if burnt := new(big.Int).Neg(adj(lp.ID, balDelta(p, m.Sender, lp.ID))); burnt.Cmp(d.Liquidity) != 0 {
			w.Report("C13", "pool-value", "remove-burn-amount", fmt.Sprintf("height %d: asked to remove %s pool tokens, sender's pool-token balance fell by %s", p.Height, d.Liquidity, burnt), p.Height)
			return
		}
		w.Probe("c13_remove_checked")
	case transaction.AddLiquidityDataV260:
		pl := poolByCoins(p.After, uint64(d.Coin0), uint64(d.Coin1))
		if pl == nil || ownsOrder(p.Before, m.Sender) {
			return
		}
		// tight maximum (counterfactual variants): the same addition allowing exactly the amount of the
		// second coin it really took, and one unit less: never a panic, CheckTx and DeliverTx agree, and
		// it is never accepted taking more than allowed
		if v1, ok := new(big.Int).SetString(p.Tags["tx.volume1"], 10); ok && p.Variant != nil && v1.Sign() > 0 && (p.Height+int64(p.Index))%2 == 0 {
			for _, max1 := range []*big.Int{v1, new(big.Int).Sub(v1, big.NewInt(1))} {
				mx := max1
				alt := Resign(m, w.Sc.Gen.NAcct, func(tx *transaction.Transaction) bool {
					dd := d
					dd.MaximumVolume1 = mx
					enc, err := rlp.EncodeToBytes(dd)
					if err != nil {
						return false
					}
					tx.Data = enc
					return true
				})
				if alt == nil {
					break
				}
				vr := p.Variant(alt, true)
				if vr == nil {
					break
				}
				if vr.Err != nil {
					w.Report("C07", "no-panic", "tight-maximum:"+vr.Phase+"@"+vr.Err.Site, fmt.Sprintf("height %d add-liquidity allowing at most %s of the second coin (it really took %s; CheckTx code %d): %s panics: %v\n%s", p.Height, mx, v1, vr.CheckCode, vr.Phase, vr.Err, trimStack(vr.Err.Stack)), p.Height)
					return
				}
				if (vr.CheckCode == 0) != (vr.Resp.Code == 0) && vr.CheckCode != 113 && vr.CheckCode != 114 {
					w.Report("C06", "check-deliver", "tight-maximum:addliq", fmt.Sprintf("height %d add-liquidity allowing at most %s of the second coin: CheckTx answers %d, DeliverTx on the same state %d", p.Height, mx, vr.CheckCode, vr.Resp.Code), p.Height)
					return
				}
				if vr.Resp.Code == 0 {
					if g1, ok := new(big.Int).SetString(vr.Tags["tx.volume1"], 10); ok && g1.Cmp(mx) > 0 {
						// observed on the unchanged tree (the check rounds down, the mint rounds up: one unit
						// beyond the stated maximum). No listed property speaks about AddLiquidity's maximum,
						// so this is counted, not reported.
						w.Probe("c13_add_took_one_unit_beyond_maximum")
					}
				}
			}
			w.Probe("c13_add_tight_maximum_checked")
		}
		if m.GasCoin != 0 && (m.GasCoin == pl.Coin0 || m.GasCoin == pl.Coin1) && p.Tags["tx.commission_conversion"] == "pool" {
			return
		}
		lp := lpCoinOf(p.After, pl)
		if lp == nil {
			return
		}
		minted := adj(lp.ID, balDelta(p, m.Sender, lp.ID))
		if minted.Sign() <= 0 {
			w.Report("C13", "pool-value", "add-minted-nothing", fmt.Sprintf("height %d: accepted AddLiquidity minted %s pool tokens", p.Height, minted), p.Height)
			return
		}
		supply := bi(lp.Volume)
		// removing exactly what was minted right afterwards must not return more than was put in
		for i, coin := range []uint64{pl.Coin0, pl.Coin1} {
			res := bi(pl.Reserve0)
			if i == 1 {
				res = bi(pl.Reserve1)
			}
			back := new(big.Int).Div(new(big.Int).Mul(minted, res), supply)
			put := new(big.Int).Neg(adj(coin, balDelta(p, m.Sender, coin)))
			if back.Cmp(put) > 0 {
				w.Report("C13", "pool-value", "round-trip-profit", fmt.Sprintf("height %d: added %s of coin %d to pool %d for %s pool tokens; removing them at once would return %s", p.Height, put, coin, pl.ID, minted, back), p.Height)
				return
			}
		}
		w.Probe("c13_add_checked")
	}
}

// ---------------- C14: limit orders ----------------

type ord struct {
	id       uint64
	pool     string
	sale     bool
	owner    types.Address
	sellCoin uint64
	buyCoin  uint64
	sell     *big.Int // escrowed, unfilled amount
	buy      *big.Int // what the owner wants for it
	height   uint64
}

func ordersOf(s *Snap) map[uint64]*ord {
	m := map[uint64]*ord{}
	for _, p := range s.Pools {
		for _, o := range p.Orders {
			x := &ord{id: o.ID, pool: pairKey(p.Coin0, p.Coin1), sale: o.IsSale, owner: o.Owner, height: o.Height}
			if o.IsSale {
				x.sellCoin, x.buyCoin, x.sell, x.buy = p.Coin1, p.Coin0, bi(o.Volume1), bi(o.Volume0)
			} else {
				x.sellCoin, x.buyCoin, x.sell, x.buy = p.Coin0, p.Coin1, bi(o.Volume0), bi(o.Volume1)
			}
			m[o.ID] = x
		}
	}
	return m
}

var minOrderVolume = big.NewInt(1e10)

// crossedOrders lists the orders whose own price is better for a taker than the pool's marginal
// price by more than one part in a million (pools with dust reserves are not judged).
func crossedOrders(s *Snap) map[uint64]string {
	out := map[uint64]string{}
	dust := big.NewInt(1e12)
	for _, p := range s.Pools {
		r0, r1 := bi(p.Reserve0), bi(p.Reserve1)
		if r0.Cmp(dust) < 0 || r1.Cmp(dust) < 0 {
			continue
		}
		for _, o := range p.Orders {
			v0, v1 := bi(o.Volume0), bi(o.Volume1)
			var l, r *big.Int
			if o.IsSale {
				// maker sells coin1 for coin0: taker pays v0/v1 of coin0 per coin1, the pool asks r0/r1
				l, r = new(big.Int).Mul(v0, r1), new(big.Int).Mul(v1, r0)
			} else {
				l, r = new(big.Int).Mul(v1, r0), new(big.Int).Mul(v0, r1)
			}
			// crossed when l < r*(1-1e-6)
			lim := new(big.Int).Sub(r, new(big.Int).Div(r, big.NewInt(1000000)))
			if l.Cmp(lim) < 0 {
				out[o.ID] = fmt.Sprintf("order %d (sale %v) volumes %s / %s, pool %d reserves %s / %s", o.ID, o.IsSale, v0, v1, p.ID, r0, r1)
			}
		}
	}
	return out
}

// better reports whether a is strictly ahead of b in the book: cheaper for the taker at double
// precision, or equal price and lower id.
func better(a, b *ord) bool {
	pa, _ := new(big.Rat).SetFrac(a.buy, a.sell).Float64()
	pb, _ := new(big.Rat).SetFrac(b.buy, b.sell).Float64()
	if pa != pb {
		return pa < pb
	}
	return a.id < b.id
}

// OracleC14 judges taker trades, cancellations and order placements on their counterfactual diff.
type OracleC14 struct {
	cancelled map[uint64]bool
}

func (o *OracleC14) Judge(w *World, b *BlockCtx, p *ProbeResult) {
	m := p.Meta
	if m.Garbage || m.Malleated {
		return
	}
	if o.cancelled == nil {
		o.cancelled = map[uint64]bool{}
	}
	before, after := ordersOf(p.Before), ordersOf(p.After)
	commission := tagInt(p, "tx.commission_amount")
	if commission == nil {
		commission = new(big.Int)
	}
	// --- cancellation ---
	if d, ok := m.Data.(transaction.RemoveLimitOrderData); ok {
		id := uint64(d.ID)
		x := before[id]
		if p.Resp.Code == 0 {
			if x == nil || o.cancelled[id] {
				w.Report("C14", "orders", "cancel-missing-order", fmt.Sprintf("height %d: cancellation of order %d accepted although it does not exist (cancelled before: %v)", p.Height, id, o.cancelled[id]), p.Height)
				return
			}
			if x.owner != m.Sender {
				w.Report("C14", "orders", "cancel-by-stranger", fmt.Sprintf("height %d: order %d of %s cancelled by %s", p.Height, id, x.owner.String(), m.Sender.String()), p.Height)
				return
			}
			got := balDelta(p, m.Sender, x.sellCoin)
			if x.sellCoin == m.GasCoin {
				got = new(big.Int).Add(got, commission)
			}
			if m.GasCoin != 0 && p.Tags["tx.commission_conversion"] == "pool" && strings.Contains("-"+x.pool+"-", fmt.Sprintf("-%d-", m.GasCoin)) {
				// the commission swap runs through the order's own pool first and may fill part of it
				w.Probe("c14_cancel_after_own_commission_fill")
				if got.Cmp(x.sell) > 0 {
					w.Report("C14", "orders", "cancel-refund", fmt.Sprintf("height %d: cancelling order %d with %s unfilled returned %s", p.Height, id, x.sell, got), p.Height)
				}
				o.cancelled[id] = true
				return
			}
			if got.Cmp(x.sell) != 0 {
				w.Report("C14", "orders", "cancel-refund", fmt.Sprintf("height %d: cancelling order %d with %s unfilled returned %s", p.Height, id, x.sell, got), p.Height)
				return
			}
			if after[id] != nil {
				w.Report("C14", "orders", "cancelled-order-remains", fmt.Sprintf("height %d: order %d still in the book after its cancellation", p.Height, id), p.Height)
				return
			}
			o.cancelled[id] = true
			w.Probe("c14_cancel_checked")
		} else if x != nil && x.owner != m.Sender {
			w.Probe("c14_cancel_by_stranger_rejected")
		} else if x == nil && o.cancelled[id] {
			w.Probe("c14_second_cancel_rejected")
		}
		return
	}
	if p.Resp.Code != 0 {
		return
	}
	// --- fills caused by this transaction ---
	type agg struct{ expect, fills *big.Int }
	credits := map[string]*agg{} // owner/coin
	var consumed []*ord
	for id, x := range before {
		y := after[id]
		var soldNow *big.Int
		if y == nil {
			soldNow = new(big.Int).Set(x.sell)
		} else {
			soldNow = new(big.Int).Sub(x.sell, y.sell)
		}
		if soldNow.Sign() == 0 {
			continue
		}
		if soldNow.Sign() < 0 {
			w.Report("C14", "orders", "order-grew", fmt.Sprintf("height %d: order %d unfilled amount grew from %s to %s", p.Height, id, x.sell, y.sell), p.Height)
			return
		}
		consumed = append(consumed, x)
		refund := new(big.Int)
		if y == nil {
			// closed: fully filled, or the remainder fell below the minimum volume and is refunded
			// (attribution between "sold" and "refunded" is judged on the owner's two balances together)
		} else {
			// a surviving partially filled order keeps its price (the node derives the filled amounts
			// with floats, so "the same price" is judged at double precision like the book order is)
			l := new(big.Int).Mul(y.buy, x.sell)
			r := new(big.Int).Mul(x.buy, y.sell)
			diff := new(big.Int).Abs(new(big.Int).Sub(l, r))
			// ... or within one unit of either remaining amount (dust-sized orders)
			unit := new(big.Int).Add(x.sell, x.buy)
			if new(big.Int).Mul(diff, big.NewInt(1e15)).Cmp(r) > 0 && diff.Cmp(unit) > 0 {
				w.Report("C14", "orders", "price-changed", fmt.Sprintf("height %d: order %d was %s for %s, after a partial fill it is %s for %s", p.Height, id, x.sell, x.buy, y.sell, y.buy), p.Height)
				return
			}
			if y.sell.Cmp(minOrderVolume) < 0 || y.buy.Cmp(minOrderVolume) < 0 {
				w.Report("C14", "orders", "below-minimum-survives", fmt.Sprintf("height %d: order %d survives with %s for %s, below the minimum volume", p.Height, id, y.sell, y.buy), p.Height)
				return
			}
		}
		_ = refund
		k := x.owner.String() + "/" + fmt.Sprint(x.buyCoin)
		if credits[k] == nil {
			credits[k] = &agg{new(big.Int), new(big.Int)}
		}
		// the owner must receive at least floor(sold * buy/sell) - 1 in the coin it wanted, where a
		// closed order's refunded remainder counts as not sold
		credits[k].fills.Add(credits[k].fills, big.NewInt(1))
		_ = soldNow
	}
	// owner-level accounting: for every owner of consumed orders, value received in wanted coins plus
	// refunds in sold coins must cover what left its escrow at the order's own price
	byOwner := map[types.Address][]*ord{}
	for _, x := range consumed {
		byOwner[x.owner] = append(byOwner[x.owner], x)
	}
	for owner, list := range byOwner {
		if owner == m.Sender {
			continue // the taker filled its own orders: its balances mix both roles
		}
		// group by (sellCoin, buyCoin)
		type key struct{ s, b uint64 }
		groups := map[key][]*ord{}
		for _, x := range list {
			groups[key{x.sellCoin, x.buyCoin}] = append(groups[key{x.sellCoin, x.buyCoin}], x)
		}
		for k, g := range groups {
			gotBuy := balDelta(p, owner, k.b)
			gotSell := balDelta(p, owner, k.s) // refunds of closed little remainders
			if gotSell.Sign() < 0 || gotBuy.Sign() < 0 {
				w.Report("C14", "orders", "maker-debited", fmt.Sprintf("height %d: maker %s lost balance through a fill (%s of coin %d, %s of coin %d)", p.Height, owner.String(), gotBuy, k.b, gotSell, k.s), p.Height)
				return
			}
			// minimal acceptable credit: refunds first reduce the sold amount of closed orders
			need := new(big.Int)
			refundLeft := new(big.Int).Set(gotSell)
			for _, x := range g {
				y := after[x.id]
				sold := new(big.Int).Set(x.sell)
				if y != nil {
					sold.Sub(sold, y.sell)
				} else if refundLeft.Sign() > 0 {
					rf := refundLeft
					if rf.Cmp(sold) > 0 {
						rf = sold
					}
					sold = new(big.Int).Sub(sold, rf)
					refundLeft = new(big.Int).Sub(refundLeft, rf)
				}
				want := new(big.Int).Div(new(big.Int).Mul(sold, x.buy), x.sell)
				want.Sub(want, big.NewInt(1))
				if want.Sign() > 0 {
					need.Add(need, want)
				}
			}
			// ... and at most what its own price gives for what left the escrow: a refund (closed
			// remainder) is coin that was not sold, so it reduces the proceeds at least at the lowest price
			// (only for pool trades: other transaction types may credit the maker on their own account -
			// a Send to the maker whose fee conversion also fills the maker's order, for example)
			isTrade := false
			switch m.Data.(type) {
			case transaction.SellSwapPoolDataV260, transaction.BuySwapPoolDataV260, transaction.SellAllSwapPoolDataV260:
				isTrade = true
			}
			if len(groups) == 1 && isTrade {
				most := big.NewInt(int64(len(g)) + 1)
				var minNum, minDen *big.Int // lowest buy/sell among closed orders
				closed := 0
				for _, x := range g {
					y := after[x.id]
					left := new(big.Int).Set(x.sell)
					if y != nil {
						left.Sub(left, y.sell)
					} else {
						closed++
						if minNum == nil || new(big.Int).Mul(x.buy, minDen).Cmp(new(big.Int).Mul(minNum, x.sell)) < 0 {
							minNum, minDen = x.buy, x.sell
						}
					}
					c := new(big.Int).Mul(left, x.buy)
					c.Add(c, new(big.Int).Sub(x.sell, big.NewInt(1)))
					most.Add(most, c.Div(c, x.sell))
					// the sold amount is rounded down to a whole unit: up to one unit's worth more
					u := new(big.Int).Add(x.buy, new(big.Int).Sub(x.sell, big.NewInt(1)))
					most.Add(most, u.Div(u, x.sell))
				}
				if closed == 0 && gotSell.Sign() > 0 {
					w.Report("C14", "orders", "refund-without-close", fmt.Sprintf("height %d: maker %s was credited %s of the coin it sells (%d) although none of its orders was closed", p.Height, owner.String(), gotSell, k.s), p.Height)
					return
				}
				total := new(big.Int).Set(gotBuy)
				if closed > 0 && gotSell.Sign() > 0 {
					total.Add(total, new(big.Int).Div(new(big.Int).Mul(gotSell, minNum), minDen))
				}
				// filled amounts are derived with floats: allow one part in 10^15
				most.Add(most, new(big.Int).Div(most, big.NewInt(1e15)))
				if total.Cmp(most) > 0 {
					w.Report("C14", "orders", "maker-overpaid", fmt.Sprintf("height %d: maker %s: %d order(s) selling coin %d for coin %d lost escrow worth at most %s at their own prices, the maker received %s plus a refund of %s", p.Height, owner.String(), len(g), k.s, k.b, most, gotBuy, gotSell), p.Height)
					return
				}
				if closed > 0 && gotSell.Sign() > 0 {
					w.Probe("c14_closed_remainder_refund_checked")
				}
			}
			if gotBuy.Cmp(need) < 0 {
				w.Report("C14", "orders", "filled-below-price", fmt.Sprintf("height %d: maker %s had %d order(s) selling coin %d for coin %d consumed and should receive at least %s at its own price, received %s (refunded %s)", p.Height, owner.String(), len(g), k.s, k.b, need, gotBuy, gotSell), p.Height)
				return
			}
			w.Probe("c14_fill_checked")
		}
	}
	for _, x := range consumed {
		for _, z := range consumed {
			if z.pool == x.pool && z.sale == x.sale && z.id == x.id+1 {
				pa, _ := new(big.Rat).SetFrac(x.buy, x.sell).Float64()
				pb, _ := new(big.Rat).SetFrac(z.buy, z.sell).Float64()
				if pa == pb {
					w.Probe("c14_equal_price_neighbours_consumed")
				}
			}
		}
	}
	// priority: nothing strictly ahead in the same book side may be left untouched with volume
	for _, x := range consumed {
		for id, z := range before {
			if z.pool != x.pool || z.sale != x.sale || id == x.id {
				continue
			}
			y := after[id]
			if y != nil && y.sell.Cmp(z.sell) == 0 && better(z, x) && z.owner != m.Sender {
				w.Report("C14", "orders", "priority", fmt.Sprintf("height %d: order %d (%s for %s) was consumed while order %d (%s for %s) ahead of it on the same side of pool %s was left untouched", p.Height, x.id, x.sell, x.buy, z.id, z.sell, z.buy, x.pool), p.Height)
				return
			}
		}
	}
	// best price first also binds the pool itself: a trade never moves the pool price past an order
	// that it left untouched (placement requires orders to be no better than the pool price)
	cb, ca := crossedOrders(p.Before), crossedOrders(p.After)
	for id, d := range ca {
		z, y := before[id], after[id]
		if z == nil || y == nil || cb[id] != "" || y.sell.Cmp(z.sell) != 0 || z.owner == m.Sender {
			continue
		}
		w.Report("C14", "orders", "pool-traded-past-order", fmt.Sprintf("height %d: after this %s order %d is untouched although the pool price moved past it: %s", p.Height, m.Kind, id, d), p.Height)
		return
	}
	if len(ca) == 0 && len(after) > 0 {
		w.Probe("c14_book_not_crossed_checked")
	}
	if len(consumed) > 0 {
		w.Probe("c14_trade_with_fills")
	}
	if len(consumed) > 1 {
		w.Probe("c14_trade_with_several_fills")
	}
	// --- placement ---
	if d, ok := m.Data.(transaction.AddLimitOrderData); ok {
		for id, y := range after {
			if before[id] == nil {
				if y.owner != m.Sender || y.sellCoin != uint64(d.CoinToSell) || y.buyCoin != uint64(d.CoinToBuy) {
					w.Report("C14", "orders", "placed-wrong", fmt.Sprintf("height %d: new order %d owner %s sells coin %d for %d; the transaction of %s sells %d for %d", p.Height, id, y.owner.String(), y.sellCoin, y.buyCoin, m.Sender.String(), d.CoinToSell, d.CoinToBuy), p.Height)
					return
				}
				if y.sell.Cmp(minOrderVolume) < 0 || y.buy.Cmp(minOrderVolume) < 0 {
					w.Report("C14", "orders", "below-minimum-placed", fmt.Sprintf("height %d: order %d placed with %s for %s, below the minimum volume", p.Height, id, y.sell, y.buy), p.Height)
					return
				}
				w.Probe("c14_order_placed")
			}
		}
	}
}

// MonC14Expiry checks expiry at block level (it happens in EndBlock).
type MonC14Expiry struct {
	NopMonitor
}

func (MonC14Expiry) AfterBlock(w *World, b *BlockCtx) {
	if b.Cur == nil || w.Viol != nil || w.Sc.Node.ValidatorMode {
		return
	}
	h := uint64(b.Height)
	p, e := w.Sc.Node.Period, w.Sc.Node.ExpirePeriod
	expiryBlock := h > e && h%p == p/2
	evs := eventsdb.NewEventsStore(w.Disk.Store("events")).LoadEvents(uint32(h))
	before, after := ordersOf(b.Prev), ordersOf(b.Cur)
	expired := map[uint64]*eventsdb.OrderExpiredEvent{}
	for _, ev := range evs {
		if oe, ok := ev.(*eventsdb.OrderExpiredEvent); ok {
			expired[oe.ID] = oe
		}
	}
	if !expiryBlock {
		// outside expiry blocks the event is only used for remainders closed below the minimum volume
		for id, oe := range expired {
			if x := before[id]; x != nil && after[id] == nil {
				if a := bi(oe.Amount); a == nil || a.Cmp(x.sell) > 0 {
					w.Report("C14", "orders", "little-refund-amount", fmt.Sprintf("height %d: order %d closed with refund %s, it only had %s unfilled", b.Height, id, oe.Amount, x.sell), b.Height)
					return
				}
			}
		}
		return
	}
	limit := h - e
	ids := make([]uint64, 0, len(before))
	for id := range before {
		ids = append(ids, id)
	}
	sort.Slice(ids, func(i, j int) bool { return ids[i] < ids[j] })
	for _, id := range ids {
		x := before[id]
		if x.height > limit {
			if oe := expired[id]; oe != nil && after[id] == nil && !touchedInBlock(b, x) {
				w.Report("C14", "orders", "expired-early", fmt.Sprintf("height %d: order %d placed at %d expired although the expiry period is %d blocks", b.Height, id, x.height, e), b.Height)
				return
			}
			continue
		}
		if touchedInBlock(b, x) {
			continue // traded or cancelled in this very block: judged per transaction
		}
		if after[id] != nil {
			w.Report("C14", "orders", "not-expired", fmt.Sprintf("height %d: order %d placed at %d is older than the expiry period %d and still in the book", b.Height, id, x.height, e), b.Height)
			return
		}
		oe := expired[id]
		if oe == nil || oe.Address != x.owner || oe.Coin != x.sellCoin || oe.Amount != x.sell.String() {
			w.Report("C14", "orders", "expiry-refund", fmt.Sprintf("height %d: order %d of %s with %s of coin %d unfilled expired; event says %+v", b.Height, id, x.owner.String(), x.sell, x.sellCoin, oe), b.Height)
			return
		}
		w.Probe("c14_expiry_checked")
	}
}

func touchedInBlock(b *BlockCtx, x *ord) bool {
	for i, mm := range b.Metas {
		if i >= len(b.Res.Deliver) {
			break
		}
		if mm.Garbage || mm.Malleated {
			return true
		}
		if b.Res.Deliver[i].Code != 0 && mm.GasCoin == 0 {
			continue
		}
		switch d := mm.Data.(type) {
		case transaction.RemoveLimitOrderData:
			if uint64(d.ID) == x.id {
				return true
			}
		case transaction.SellSwapPoolDataV260, transaction.BuySwapPoolDataV260, transaction.SellAllSwapPoolDataV260:
			return true
		}
		// commission swaps through the order's pool
		if mm.GasCoin != 0 && strings.Contains(x.pool, fmt.Sprint(mm.GasCoin)) {
			return true
		}
	}
	return false
}

func init() {
	register(&PropSpec{ID: "C13", Level: "exploration",
		Rule: "pool-heavy histories (creation, liquidity changes, trades over 1..4 hop routes, orders at, above and below the pool price, commission swaps) with reserves from 10^2 to 10^7 coins and extreme ratios, dust additions whose second amount rounds to 0, 1 or 2 units; oracles: per block the reserve product of every pool without liquidity transactions never falls and pools never vanish; per transaction (counterfactual twins) a removal returns at most the proportional share and burns exactly the stated pool tokens, an addition could not be removed at once for more than was put in; the 1000-unit creation lock at the zero address never decreases; distinct non-trivial case = distinct (tx kind, result code) pair of pool transactions",
		Make: func(r *rand.Rand, seed int64, chain int, tier string) *Scenario {
			sc := baseScenario("C13", r, seed, chain, tier, PoolProfile(false), func(g *GenCfg, n *NodeCfg) {
				g.NPool = 3 + r.Intn(4)
				g.NToken = 2 + r.Intn(4)
				g.NCoin = r.Intn(3)
			})
			if len(sc.Blocks) > 40 && tier != "thorough" {
				sc.Blocks = sc.Blocks[:40]
			}
			return sc
		},
		Monitors: func(sc *Scenario) []Monitor {
			return []Monitor{&MonC13{}, &MonProbe{Oracles: []Prober{OracleC13{}}}}
		},
		Distinct:     probeDistinct,
		ExpectProbes: []string{"c13_block_checked", "c13_traded_pool", "c13_traded_pool_with_orders", "c13_remove_checked", "c13_add_checked", "c13_remove_tight_minimum_checked", "c13_add_tight_maximum_checked"},
	})
	register(&PropSpec{ID: "C14", Level: "exploration",
		Rule: "order-heavy histories: makers place orders around the pool price on several pools, takers trade through 1..4 hop routes and custom commission coins, owners and strangers cancel, orders expire at the configured period, restarts of nothing (single node) but fresh probe nodes load books from disk; oracles per transaction (counterfactual twins): makers receive at least floor(sold*price)-1 per consumed order at the order's own price with refunds of closed remainders, partially filled orders keep their price within one unit and stay above the minimum volume, nothing ahead in the book (price at double precision, then id) is skipped, cancellation only by the owner, once, returning exactly the unfilled amount; per block: expiry exactly at the configured period with exact refund events; distinct non-trivial case = distinct (tx kind, result code) of order/trade transactions",
		Make: func(r *rand.Rand, seed int64, chain int, tier string) *Scenario {
			sc := baseScenario("C14", r, seed, chain, tier, PoolProfile(true), func(g *GenCfg, n *NodeCfg) {
				g.NPool = 2 + r.Intn(3)
				g.NToken = 2 + r.Intn(3)
				n.ExpirePeriod = uint64(4 + r.Intn(14))
				n.Period = []uint64{6, 8, 12}[r.Intn(3)]
			})
			if len(sc.Blocks) > 50 && tier != "thorough" {
				sc.Blocks = sc.Blocks[:50]
			}
			return sc
		},
		Monitors: func(sc *Scenario) []Monitor {
			return []Monitor{&MonProbe{Oracles: []Prober{&OracleC14{}}}, MonC14Expiry{}, MonC14Book{}}
		},
		Distinct:     probeDistinct,
		ExpectProbes: []string{"c14_order_placed", "c14_fill_checked", "c14_trade_with_fills", "c14_trade_with_several_fills", "c14_cancel_checked", "c14_expiry_checked", "c14_cancel_by_stranger_rejected", "c14_closed_remainder_refund_checked", "c14_equal_price_neighbours_consumed", "c14_fresh_book_listing_checked"},
	})
}

// PoolProfile is the pool / order-book heavy workload (also a swarm flavour of C09 / C10).
func PoolProfile(orders bool) Profile {
	p := txProfile()
	for k := range p.W {
		p.W[k] = 1
	}
	for _, k := range []string{"sellpool", "buypool", "sellallpool", "addliq", "remliq", "createpool"} {
		p.W[k] = 10
	}
	p.W["addorder"], p.W["remorder"] = 6, 3
	p.W["dustorder"], p.W["fillorder"] = 2, 4
	if orders {
		p.W["addorder"], p.W["remorder"] = 25, 8
		p.W["dustorder"], p.W["fillorder"], p.W["remdust"] = 10, 18, 4
	}
	p.PGasCustom = 0.3
	p.PDup, p.PGarbage, p.PBadNonce, p.PBadSig = 0, 0, 0.01, 0.01
	p.PBigAmt = 0.08
	p.TxMin, p.TxMax = 1, 6
	return p
}

// MonC14Book: after a block that touched an order book, a freshly started node over the same disk
// lists every pool's book (both sides, read from the committed price index): exactly the orders of
// the committed state, each once, best price first and lower id first among equal prices.
type MonC14Book struct{ NopMonitor }

func (MonC14Book) AfterBlock(w *World, b *BlockCtx) {
	if b.Cur == nil || w.Viol != nil || b.Height == w.Sc.InitialH {
		return
	}
	touched := false
	for i, m := range b.Metas {
		if i >= len(b.Res.Deliver) || b.Res.Deliver[i].Code != 0 {
			continue
		}
		switch m.Data.(type) {
		case transaction.AddLimitOrderData, transaction.RemoveLimitOrderData, transaction.SellSwapPoolDataV260, transaction.BuySwapPoolDataV260, transaction.SellAllSwapPoolDataV260:
			touched = true
		}
		if m.GasCoin != 0 {
			touched = true
		}
	}
	if !touched {
		return
	}
	has := false
	for _, p := range b.Cur.Pools {
		if len(p.Orders) > 0 {
			has = true
		}
	}
	if !has {
		return
	}
	n, cerr := OpenNode(w.Disk.Clone(), w.Sc.Node)
	if cerr != nil {
		return
	}
	defer n.Release()
	cs := n.App.CurrentState()
	if cs == nil {
		return
	}
	for _, p := range b.Cur.Pools {
		want := map[uint64]*ord{}
		for id, o := range ordersOf(b.Cur) {
			if o.pool == pairKey(p.Coin0, p.Coin1) {
				want[id] = o
			}
		}
		sw := cs.Swap().GetSwapper(coinID(p.Coin0), coinID(p.Coin1))
		seen := map[uint64]bool{}
		for side, s := range []swap.EditableChecker{sw, sw.Reverse()} {
			var prev *ord
			for _, l := range s.OrdersSell(10000) {
				if l == nil {
					continue
				}
				id := uint64(l.ID())
				o := want[id]
				if o == nil {
					w.Report("C14", "orders", "book-lists-unknown-order", fmt.Sprintf("height %d: a freshly started node lists order %d in the book of pool %d (side %d); the committed state has no such order there", b.Height, id, p.ID, side), b.Height)
					return
				}
				if seen[id] {
					w.Report("C14", "orders", "book-lists-order-twice", fmt.Sprintf("height %d: a freshly started node lists order %d twice in the book of pool %d", b.Height, id, p.ID), b.Height)
					return
				}
				seen[id] = true
				if prev != nil && prev.sale == o.sale && better(o, prev) {
					w.Report("C14", "orders", "book-order", fmt.Sprintf("height %d: a freshly started node lists order %d (%s for %s) before order %d (%s for %s) in pool %d although the latter is ahead (price, then id)", b.Height, prev.id, prev.sell, prev.buy, o.id, o.sell, o.buy, p.ID), b.Height)
					return
				}
				prev = o
			}
		}
		for id := range want {
			if !seen[id] {
				w.Report("C14", "orders", "book-misses-order", fmt.Sprintf("height %d: a freshly started node does not list order %d of pool %d when it reads the book from disk", b.Height, id, p.ID), b.Height)
				return
			}
		}
	}
	w.Probe("c14_fresh_book_listing_checked")
}
