package chain

import (
	"fmt"
	"math/rand"

	"chainsim/simdb"
)

// NewTwinWithOrder builds a fresh node from the scenario's genesis whose instrumented map ranges
// iterate in the given order.
func NewTwinWithOrder(w *World, order uint64) (*Twin, *CallErr) {
	t := &Twin{Disk: simdb.NewDisk(), Cfg: w.Sc.Node}
	n, cerr := OpenNode(t.Disk, t.Cfg)
	if cerr != nil {
		return nil, cerr
	}
	n.Order = order
	t.Node = n
	_, cerr = n.InitChain(w.Sc.Genesis, w.Sc.InitialH, InitialValidators(&w.GenesisState), w.TM.Now)
	return t, cerr
}

// MonC08: independent instances fed identical requests must return identical responses and app hashes.
// In an instrumented build the instances iterate every map in different, seeded orders (ascending,
// descending, pseudo-random); in a plain build they all use Go's own random order.
type MonC08 struct {
	NopMonitor
	twins   []*Twin
	classes map[string]bool
}

func (m *MonC08) Genesis(w *World) {
	m.classes = map[string]bool{}
	for _, o := range []uint64{1, uint64(w.Sc.Seed)*2654435761 | 2} {
		t, cerr := NewTwinWithOrder(w, o)
		if cerr != nil {
			w.Report("C08", "determinism", "genesis-panics", fmt.Sprintf("instance with map order %d cannot import the genesis: %v", o, cerr), w.Sc.InitialH-1)
			return
		}
		m.twins = append(m.twins, t)
	}
	// the genesis itself must come out identical
	for _, t := range m.twins {
		if cls, d := DiskStateDiff(w.Disk, t.Disk, uint64(w.Sc.InitialH-1), nil, false); cls != "" {
			w.Report("C08", "determinism", "genesis:"+cls, fmt.Sprintf("instances with different map iteration orders (0 vs %d) differ right after InitChain: %s", t.Node.Order, d), w.Sc.InitialH-1)
			return
		}
	}
}

func (m *MonC08) AfterBlock(w *World, b *BlockCtx) {
	if w.Viol != nil {
		return
	}
	for _, t := range m.twins {
		res := t.Node.ExecBlock(b.Req, nil)
		if cls, d := CompareBlock(&b.Res, &res); cls != "" {
			extra := ""
			if cls == "app-hash" {
				if c2, d2 := DiskStateDiff(w.Disk, t.Disk, uint64(b.Height), []uint64{uint64(b.Height)}, !w.Sc.Node.ValidatorMode); c2 != "" {
					extra = "; first durable difference: " + c2 + ": " + d2
				}
			}
			w.Report("C08", "determinism", cls, fmt.Sprintf("height %d: instance with map order 0 and instance with map order %d disagree: %s%s; txs: %s", b.Height, t.Node.Order, d, extra, txSummary(b)), b.Height)
			return
		}
	}
	if b.Cur != nil {
		// events are part of what explorers consume; compare them too
		if !w.Sc.Node.ValidatorMode {
			for _, t := range m.twins {
				if cls, d := DiskStateDiff(w.Disk, t.Disk, uint64(b.Height), []uint64{uint64(b.Height)}, true); cls != "" {
					w.Report("C08", "determinism", "state:"+cls, fmt.Sprintf("height %d: same app hash but different durable state between map orders 0 and %d: %s", b.Height, t.Node.Order, d), b.Height)
					return
				}
			}
		}
		m.classes[blockClass(w, b)] = true
		for i, mm := range b.Metas {
			if i < len(b.Res.Deliver) && b.Res.Deliver[i].Code == 0 {
				m.classes["tx:"+mm.Kind] = true
			}
		}
		w.Probe("c08_block_compared")
	}
}

func (m *MonC08) Finish(w *World) {
	for _, t := range m.twins {
		t.Node.Release()
	}
	r, mk := rangeStats()
	w.Stats.Probes["c08_instrumented_map_ranges"] = int(r)
	w.Stats.Probes["c08_ranges_over_several_keys"] = int(mk)
}

func init() {
	register(&PropSpec{ID: "C08", Level: "exploration",
		Rule: "three node instances in one run are fed identical requests; in the instrumented build (every `range` over a map in coreV2/** and api/v2/service rewritten to a seeded order) they iterate maps ascending, descending and in a seed-derived permutation, in the plain build in Go's own random order; after every call responses (codes, data, gas, tags), EndBlock validator updates as sequences, commit hashes and durable state incl. stored events must be identical; workload biased to code that collects from maps before writing (order fills with several owners, multisend, payouts with many delegators, kicks, removals, expiry, votes from several candidates); the same seeds are also run by the plain binary and their event-log digests must equal the instrumented ones; distinct non-trivial case = distinct accepted tx kind / block class compared",
		Make: func(r *rand.Rand, seed int64, chain int, tier string) *Scenario {
			p := GeneralProfile()
			for _, k := range []string{"addorder", "sellpool", "buypool", "multisend", "delegate", "unbond", "votecomm", "voteupdate", "declare", "setoff", "seton", "editcandpk"} {
				p.W[k] = 9
			}
			p.PEvidence, p.PAbsent, p.PStreak = 0.04, 0.05, 0.03
			many := r.Intn(8) == 0
			sc := baseScenario("C08", r, seed, chain, tier, p, func(g *GenCfg, n *NodeCfg) {
				g.NVal = 2 + r.Intn(6)
				g.NCand = 2 + r.Intn(6)
				g.NPool = 2 + r.Intn(4)
				n.Period = []uint64{6, 8, 12}[r.Intn(3)]
				if many {
					// far more than 100 candidates, most of them with exactly the same stake: the cut at the
					// 100th place falls inside a group of equals
					g.NVal = 3 + r.Intn(3)
					g.NCand = 140 + r.Intn(30)
					g.NCoin = 0
					g.EqualStake = true
					n.Period = 6
				}
			})
			if many && len(sc.Blocks) > 24 {
				sc.Blocks = sc.Blocks[:24]
			}
			for i := range sc.Blocks {
				for j := range sc.Blocks[i].Ops {
					if sc.Blocks[i].Ops[j].K == "voteupdate" {
						sc.Blocks[i].Ops[j].S = []string{"v310", "v320", "v330"}[r.Intn(3)]
					}
				}
			}
			return sc
		},
		Monitors: func(sc *Scenario) []Monitor { return []Monitor{&MonC08{}} },
		Distinct: func(w *World) []string {
			for _, m := range w.Monitors {
				if c, ok := m.(*MonC08); ok {
					var out []string
					for k := range c.classes {
						out = append(out, k)
					}
					return out
				}
			}
			return nil
		},
		ExpectProbes: []string{"c08_block_compared"},
		Assumptions: []string{"IAVL, tm-db and other dependencies iterate their own maps un-instrumented", "goroutine scheduling inside the node does not influence state: the application executes blocks in one goroutine (the snapshot goroutine only reads)"},
	})
}
