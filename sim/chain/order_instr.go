//go:build instr

package chain

import "github.com/MinterTeam/minter-go-node/simrt"

const Instrumented = true

func setOrder(o uint64) { simrt.SetOrder(o) }

func rangeStats() (uint64, uint64) { return simrt.Ranges, simrt.MultiKey }
