package chain

import (
	"crypto/sha256"
	"encoding/binary"
	"fmt"
	"io"
	"log"
	"runtime/debug"
	"strings"
	"sync/atomic"
	"time"

	"chainsim/simdb"

	"github.com/MinterTeam/minter-go-node/cmd/utils"
	"github.com/MinterTeam/minter-go-node/config"
	"github.com/MinterTeam/minter-go-node/coreV2/appdb"
	"github.com/MinterTeam/minter-go-node/coreV2/minter"
	"github.com/MinterTeam/minter-go-node/coreV2/state"
	"github.com/MinterTeam/minter-go-node/coreV2/types"
	abci "github.com/tendermint/tendermint/abci/types"
	tmlog "github.com/tendermint/tendermint/libs/log"
	tmproto "github.com/tendermint/tendermint/proto/tendermint/types"
)

func init() {
	log.SetOutput(io.Discard)
}

// NodeCfg is the node-level configuration sampled per run.
type NodeCfg struct {
	Period        uint64 `json:"period"`         // stake update / payout period
	ExpirePeriod  uint64 `json:"expire_period"`  // limit order expiry
	KeepLast      int64  `json:"keep_last"`      // KeepLastStates
	ValidatorMode bool   `json:"validator_mode"` // events mocked, tags dropped
	HaltHeight    int    `json:"halt_height"`
	CacheSize     int    `json:"cache_size"` // IAVL node cache
}

// CallErr describes a call into the node that did not return normally.
type CallErr struct {
	Call  string `json:"call"`
	Crash bool   `json:"crash"` // injected crash (simdb sentinel)
	Panic string `json:"panic"`
	Site  string `json:"site"` // top repo frame
	Stack string `json:"-"`
}

func (e *CallErr) Error() string {
	if e.Crash {
		return "injected crash in " + e.Call
	}
	return fmt.Sprintf("panic in %s at %s: %s", e.Call, e.Site, e.Panic)
}

var homeCounter uint64

// Node is one application instance over a simulated disk.
type Node struct {
	Disk    *simdb.Disk
	App     *minter.Blockchain
	Cfg     NodeCfg
	home    string
	Stopped bool // stop() was invoked (halt / unknown version)
	Dead    bool // a panic or crash went through; the instance must not be used any more
	Digest  [32]byte
	Calls   uint64
	Trace   func(string) // optional event log sink
	Order   uint64       // map iteration order of this instance (instrumented builds)
	Inter func(name string, f func()) // when set, runs the body of every call (C25 tier B: under the lock-point scheduler)
}

func tmConfig(c NodeCfg) *config.Config {
	cfg := config.DefaultConfig()
	cfg.DBBackend = "memdb"
	cfg.KeepLastStates = c.KeepLast
	cfg.ValidatorMode = c.ValidatorMode
	cfg.HaltHeight = c.HaltHeight
	cfg.StateCacheSize = c.CacheSize
	if cfg.StateCacheSize == 0 {
		cfg.StateCacheSize = 10000
	}
	return cfg
}

// OpenNode constructs a Blockchain over the disk, exactly as a process start does.
func OpenNode(disk *simdb.Disk, c NodeCfg) (n *Node, cerr *CallErr) {
	id := atomic.AddUint64(&homeCounter, 1)
	n = &Node{Disk: disk, Cfg: c, home: fmt.Sprintf("/nonexistent/simhome/%d", id)}
	appdb.VerifRegisterDB(n.home+"/data", disk.Store("app"))
	st := utils.NewStorageWithDBs(n.home, disk.Store("state"), disk.Store("events"), disk.Store("snapshot"))
	cerr = n.call("NewMinterBlockchain", func() {
		n.App = minter.NewMinterBlockchain(st, tmConfig(c), nil, c.Period, c.ExpirePeriod, tmlog.NewNopLogger())
	})
	return n, cerr
}

// Release drops the simulator's bookkeeping for the instance (the disk is untouched).
func (n *Node) Release() {
	appdb.VerifRegisterDB(n.home+"/data", nil)
	if n.App != nil {
		n.App.VerifForget()
	}
}

// Close performs a clean process stop: handles are closed, object dropped.
func (n *Node) Close() {
	if n.App != nil && !n.Dead {
		n.call("Close", func() { _ = n.App.Close() })
	}
	n.Release()
}

func topRepoFrame(stack string) string {
	lines := strings.Split(stack, "\n")
	seenPanic := false
	for i := 0; i < len(lines); i++ {
		l := lines[i]
		if strings.HasPrefix(l, "panic(") {
			seenPanic = true
			continue
		}
		if !seenPanic {
			continue
		}
		if strings.Contains(l, "github.com/MinterTeam/minter-go-node/") && !strings.HasPrefix(l, "\t") {
			fn := l
			if j := strings.LastIndex(fn, "("); j > 0 {
				fn = fn[:j]
			}
			fn = strings.TrimPrefix(fn, "github.com/MinterTeam/minter-go-node/")
			return fn
		}
	}
	return "?"
}

func (n *Node) call(name string, f func()) (cerr *CallErr) {
	setOrder(n.Order)
	defer func() {
		if r := recover(); r != nil {
			n.Dead = true
			st := string(debug.Stack())
			if rp, ok := r.(relayedPanic); ok { // raised in the call's own goroutine / a scheduled task
				r, st = rp.V, rp.Stack
			}
			if _, ok := r.(simdb.CrashSentinel); ok {
				cerr = &CallErr{Call: name, Crash: true}
				return
			}
			msg := fmt.Sprint(r)
			if len(msg) > 300 {
				msg = msg[:300]
			}
			cerr = &CallErr{Call: name, Panic: msg, Site: topRepoFrame(st), Stack: st}
		}
	}()
	if n.Inter != nil {
		n.Inter(name, f)
		return nil
	}
	// the call runs in its own goroutine so that one that never returns (an endless loop in the
	// application) is reported instead of hanging the simulator; panics are relayed to this goroutine
	done := make(chan *relayedPanic, 1)
	go func() {
		defer func() {
			if r := recover(); r != nil {
				done <- &relayedPanic{V: r, Stack: string(debug.Stack())}
				return
			}
			done <- nil
		}()
		f()
	}()
	select {
	case rp := <-done:
		if rp != nil {
			panic(*rp)
		}
	case <-time.After(CallTimeout):
		n.Dead = true
		Hung = true
		return &CallErr{Call: name, Panic: fmt.Sprintf("%s did not return within %v (endless loop or dead-lock in the application)", name, CallTimeout), Site: "hang"}
	}
	return nil
}

// CallTimeout bounds one ABCI call in real time. Ordinary calls take milliseconds (a payout block with a
// thousand stakes well under a second), so two minutes on a loaded machine means the call does not return.
var CallTimeout = 120 * time.Second

// Hung is set once a call timed out: its goroutine is still running, so the process must not be used
// for further measurements (the worker records the violation and exits).
var Hung bool

// relayedPanic carries a panic (and its stack) out of a scheduled task into the calling goroutine.
type relayedPanic struct {
	V     interface{}
	Stack string
}

func (n *Node) note(kind string, b []byte) {
	h := sha256.New()
	h.Write(n.Digest[:])
	h.Write([]byte(kind))
	var l [8]byte
	binary.BigEndian.PutUint64(l[:], uint64(len(b)))
	h.Write(l[:])
	h.Write(b)
	copy(n.Digest[:], h.Sum(nil))
	n.Calls++
	if n.Trace != nil {
		s := sha256.Sum256(b)
		n.Trace(fmt.Sprintf("%d %s %x", n.Calls, kind, s[:8]))
	}
}

// InitChain delivers the genesis.
func (n *Node) InitChain(genesisJSON []byte, initialHeight int64, vals []abci.ValidatorUpdate, t time.Time) (resp abci.ResponseInitChain, cerr *CallErr) {
	cerr = n.call("InitChain", func() {
		resp = n.App.InitChain(abci.RequestInitChain{Time: t, ChainId: "sim", Validators: vals, InitialHeight: initialHeight, AppStateBytes: genesisJSON})
	})
	if cerr == nil {
		b, _ := resp.Marshal()
		n.note("InitChain", b)
	}
	return
}

// BlockReq is everything Tendermint hands to the application for one block.
type BlockReq struct {
	Height   int64
	Time     time.Time
	Votes    []abci.VoteInfo
	Evidence []abci.Evidence
	Txs      [][]byte
}

// BlockRes is everything the application hands back.
type BlockRes struct {
	Height  int64
	Deliver []abci.ResponseDeliverTx
	End     abci.ResponseEndBlock
	Hash    []byte
	Err     *CallErr
	Stopped bool
	Phase   string // last phase reached
}

// TxHook lets monitors observe each delivery (before: may run CheckTx etc.).
type TxHook struct {
	Before func(i int, tx []byte)
	After  func(i int, tx []byte, r abci.ResponseDeliverTx)
	AfterBegin func()
	AfterEnd func()
}

// Begin runs BeginBlock. stopped reports a halt / unknown-version stop.
func (n *Node) Begin(req BlockReq) (stopped bool, cerr *CallErr) {
	if n.Dead || n.Stopped {
		panic("simulator bug: Begin on dead/stopped node")
	}
	cerr = n.call("BeginBlock", func() {
		n.App.BeginBlock(abci.RequestBeginBlock{
			Header:              tmproto.Header{Height: req.Height, Time: req.Time},
			LastCommitInfo:      abci.LastCommitInfo{Votes: req.Votes},
			ByzantineValidators: req.Evidence,
		})
	})
	if cerr != nil {
		return false, cerr
	}
	n.note("BeginBlock", nil)
	if n.App.VerifStopped() {
		n.Stopped = true
	}
	return n.Stopped, nil
}

// Deliver runs DeliverTx.
func (n *Node) Deliver(tx []byte) (r abci.ResponseDeliverTx, cerr *CallErr) {
	cerr = n.call("DeliverTx", func() { r = n.App.DeliverTx(abci.RequestDeliverTx{Tx: tx}) })
	if cerr == nil {
		b, _ := r.Marshal()
		n.note("DeliverTx", b)
	}
	return
}

// Check runs the real CheckTx entry point.
func (n *Node) Check(tx []byte) (r abci.ResponseCheckTx, cerr *CallErr) {
	cerr = n.call("CheckTx", func() { r = n.App.CheckTx(abci.RequestCheckTx{Tx: tx}) })
	return
}

// End runs EndBlock.
func (n *Node) End(h int64) (r abci.ResponseEndBlock, stopped bool, cerr *CallErr) {
	cerr = n.call("EndBlock", func() { r = n.App.EndBlock(abci.RequestEndBlock{Height: h}) })
	if cerr != nil {
		return
	}
	b, _ := r.Marshal()
	n.note("EndBlock", b)
	if n.App.VerifStopped() {
		n.Stopped = true
	}
	return r, n.Stopped, nil
}

// Commit runs Commit.
func (n *Node) Commit() (hash []byte, cerr *CallErr) {
	cerr = n.call("Commit", func() { hash = n.App.Commit().Data })
	if cerr == nil {
		n.note("Commit", hash)
	}
	return
}

// ExecBlock runs BeginBlock, DeliverTx*, EndBlock, Commit with already built transactions.
func (n *Node) ExecBlock(req BlockReq, hook *TxHook) (res BlockRes) {
	res.Height = req.Height
	res.Phase = "BeginBlock"
	if res.Stopped, res.Err = n.Begin(req); res.Err != nil || res.Stopped {
		return
	}
	if hook != nil && hook.AfterBegin != nil {
		hook.AfterBegin()
	}
	res.Phase = "DeliverTx"
	for i, tx := range req.Txs {
		if hook != nil && hook.Before != nil {
			hook.Before(i, tx)
		}
		var r abci.ResponseDeliverTx
		if r, res.Err = n.Deliver(tx); res.Err != nil {
			return
		}
		res.Deliver = append(res.Deliver, r)
		if hook != nil && hook.After != nil {
			hook.After(i, tx, r)
		}
	}
	res.Phase = "EndBlock"
	if res.End, res.Stopped, res.Err = n.End(req.Height); res.Err != nil || res.Stopped {
		return
	}
	if hook != nil && hook.AfterEnd != nil {
		hook.AfterEnd()
	}
	res.Phase = "Commit"
	if res.Hash, res.Err = n.Commit(); res.Err != nil {
		return
	}
	res.Phase = "done"
	return
}

// Info is the ABCI Info call.
func (n *Node) Info() (h int64, hash []byte, cerr *CallErr) {
	cerr = n.call("Info", func() {
		r := n.App.Info(abci.RequestInfo{})
		h, hash = r.LastBlockHeight, r.LastBlockAppHash
	})
	return
}

// ColdExport reads the committed state at height h from the disk through a separate state object
// that shares nothing with the running node (what `minter export` does).
func ColdExport(disk *simdb.Disk, h uint64) (st types.AppState, err error) {
	defer func() {
		if r := recover(); r != nil {
			err = fmt.Errorf("cold export panic: %v", r)
		}
	}()
	// a chain whose genesis starts at height 1 keeps the state of height h under tree version h+1
	// (IAVL has no version 0: the genesis state is version 1); the app DB tells which case this is
	ver := h
	if ColdAppDB(disk).GetStartHeight() == 0 {
		ver = h + 1
	}
	cs, e := state.NewCheckStateAtHeightV3(ver, disk.Store("state"))
	if e != nil {
		return st, e
	}
	return cs.Export(), nil
}

// ColdAppDB opens a second AppDB view over the disk's app store (read-only use).
func ColdAppDB(disk *simdb.Disk) *appdb.AppDB { return appdb.VerifNewAppDB(disk.Store("app")) }
