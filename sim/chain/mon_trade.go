package chain

import (
	"encoding/json"
	"fmt"
	"github.com/MinterTeam/minter-go-node/rlp"
	"math"
	"math/big"
	"math/rand"
	"reflect"
	"strings"

	"github.com/MinterTeam/minter-go-node/coreV2/transaction"
	"github.com/MinterTeam/minter-go-node/coreV2/types"
)

func deltaOf(p *ProbeResult, path string) *big.Int {
	for _, d := range p.Delta {
		if d.Path == path {
			if n := d.Num(); n != nil {
				return n
			}
		}
	}
	return big.NewInt(0)
}

func balDelta(p *ProbeResult, a types.Address, coin uint64) *big.Int {
	return deltaOf(p, fmt.Sprintf("bal/%s/%d", a.String(), coin))
}

func tagInt(p *ProbeResult, k string) *big.Int {
	if v, ok := p.Tags[k]; ok {
		return bi(v)
	}
	return nil
}

// ownsOrderOnRoute: the sender's own orders could be filled by its trade and blur its balance change.
func ownsOrder(s *Snap, a types.Address) bool {
	for _, pl := range s.Pools {
		for _, o := range pl.Orders {
			if o.Owner == a {
				return true
			}
		}
	}
	return false
}

// ---------------- C15 ----------------

// OracleC15: slippage limits and tag/balance agreement of successful sells, buys and sell-alls.
type OracleC15 struct{}

func (OracleC15) Judge(w *World, b *BlockCtx, p *ProbeResult) {
	m := p.Meta
	if p.Resp.Code != 0 || m.Garbage || m.Malleated || m.Dup {
		return
	}
	var sellCoin, buyCoin uint64
	var valueSell, valueBuy, minBuy, maxSell *big.Int
	kind := ""
	switch d := m.Data.(type) {
	case transaction.SellCoinData:
		kind, sellCoin, buyCoin, valueSell, minBuy = "sell", uint64(d.CoinToSell), uint64(d.CoinToBuy), d.ValueToSell, d.MinimumValueToBuy
	case transaction.SellSwapPoolDataV260:
		kind, sellCoin, buyCoin, valueSell, minBuy = "sell", uint64(d.Coins[0]), uint64(d.Coins[len(d.Coins)-1]), d.ValueToSell, d.MinimumValueToBuy
	case transaction.BuyCoinData:
		kind, sellCoin, buyCoin, valueBuy, maxSell = "buy", uint64(d.CoinToSell), uint64(d.CoinToBuy), d.ValueToBuy, d.MaximumValueToSell
	case transaction.BuySwapPoolDataV260:
		// routes are written from the coin to sell to the coin to buy for buys as well
		kind, sellCoin, buyCoin, valueBuy, maxSell = "buy", uint64(d.Coins[0]), uint64(d.Coins[len(d.Coins)-1]), d.ValueToBuy, d.MaximumValueToSell
	case transaction.SellAllCoinData:
		kind, sellCoin, buyCoin, minBuy = "sellall", uint64(d.CoinToSell), uint64(d.CoinToBuy), d.MinimumValueToBuy
	case transaction.SellAllSwapPoolDataV260:
		kind, sellCoin, buyCoin, minBuy = "sellall", uint64(d.Coins[0]), uint64(d.Coins[len(d.Coins)-1]), d.MinimumValueToBuy
	default:
		return
	}
	if ownsOrder(p.Before, m.Sender) || m.Sender.String() == burnAddr || (m.Sender == types.Address{}) {
		// balances of a sender with open orders mix maker and taker roles; what a sell-all declares to
		// sell can still be judged: the balance before the transaction minus the fee (or, for the reserve
		// variant, the whole balance)
		if kind == "sellall" {
			before := p.Before.Balance(m.Sender, sellCoin)
			comm := tagInt(p, "tx.commission_amount")
			sold := tagInt(p, "tx.sell_amount")
			// what really entered the first pool of the route
			var hops []struct {
				ValueIn string `json:"value_in"`
			}
			if json.Unmarshal([]byte(p.Tags["tx.pools"]), &hops) == nil && len(hops) > 0 {
				if v, ok := new(big.Int).SetString(hops[0].ValueIn, 10); ok {
					sold = v
				}
			}
			if comm != nil && sold != nil && gasCoinIs(m, sellCoin) {
				if exp := new(big.Int).Sub(before, comm); sold.Cmp(exp) != 0 && sold.Cmp(before) != 0 {
					w.Report("C15", "slippage", "sellall-amount:"+m.Kind, fmt.Sprintf("height %d %s by %s (a maker with open orders): tx.sell_amount %s, balance before %s, balance minus fee %s", p.Height, m.Kind, m.Sender.String(), sold, before, exp), p.Height)
					return
				}
				w.Probe("c15_sellall_of_order_owner_checked")
			}
		}
		w.Probe("c15_skipped_sender_has_orders")
		return
	}
	commission := tagInt(p, "tx.commission_amount")
	ret := tagInt(p, "tx.return")
	if commission == nil || ret == nil {
		if w.Sc.Node.ValidatorMode {
			return
		}
		w.Report("C15", "tags", "missing-tag:"+m.Kind, fmt.Sprintf("height %d successful %s without tx.return / tx.commission_amount tags", p.Height, m.Kind), p.Height)
		return
	}
	gas := m.GasCoin
	credit := new(big.Int).Set(balDelta(p, m.Sender, buyCoin))
	debit := new(big.Int).Neg(balDelta(p, m.Sender, sellCoin))
	if gas == buyCoin {
		credit.Add(credit, commission)
	}
	if gas == sellCoin {
		debit.Sub(debit, commission)
	}
	fail := func(key, msg string) {
		w.Report("C15", "slippage", key+":"+m.Kind, fmt.Sprintf("height %d %s by %s (sell coin %d, buy coin %d, commission coin %d): %s; tags return=%s commission=%s; sender balance changes: sell coin %s, buy coin %s",
			p.Height, m.Kind, m.Sender.String(), sellCoin, buyCoin, gas, msg, ret, commission, balDelta(p, m.Sender, sellCoin), balDelta(p, m.Sender, buyCoin)), p.Height)
	}
	if gas != sellCoin && gas != buyCoin {
		if c := new(big.Int).Neg(balDelta(p, m.Sender, gas)); c.Cmp(commission) != 0 {
			fail("commission-tag", fmt.Sprintf("sender's commission-coin balance fell by %s but tx.commission_amount says %s", c, commission))
			return
		}
	}
	switch kind {
	case "sell":
		if credit.Cmp(minBuy) < 0 {
			fail("below-minimum", fmt.Sprintf("credited %s, requested minimum %s", credit, minBuy))
			return
		}
		if credit.Cmp(ret) != 0 {
			fail("return-tag", fmt.Sprintf("credited %s but tx.return says %s", credit, ret))
			return
		}
		if debit.Cmp(valueSell) != 0 {
			fail("sold-amount", fmt.Sprintf("debited %s for a sale of %s", debit, valueSell))
			return
		}
	case "buy":
		if debit.Cmp(maxSell) > 0 {
			fail("above-maximum", fmt.Sprintf("debited %s, requested maximum %s", debit, maxSell))
			return
		}
		if debit.Cmp(ret) != 0 {
			fail("return-tag", fmt.Sprintf("debited %s but tx.return says %s", debit, ret))
			return
		}
		if credit.Cmp(valueBuy) != 0 {
			fail("bought-amount", fmt.Sprintf("credited %s for a purchase of %s", credit, valueBuy))
			return
		}
	case "sellall":
		before := p.Before.Balance(m.Sender, sellCoin)
		after := p.After.Balance(m.Sender, sellCoin)
		if after.Sign() != 0 {
			fail("sellall-leftover", fmt.Sprintf("balance of the sold coin is %s after sell-all (was %s)", after, before))
			return
		}
		sold := tagInt(p, "tx.sell_amount")
		// the two sell-all types report tx.sell_amount differently (whole debit vs amount sold); both
		// describe the applied change, so either is accepted; the amount sold itself is pinned by the
		// zero leftover above and the commission tag
		if exp := new(big.Int).Sub(before, commission); sold == nil || (sold.Cmp(exp) != 0 && sold.Cmp(before) != 0) {
			fail("sellall-amount", fmt.Sprintf("tx.sell_amount %v, balance %s, balance minus fee %s", sold, before, exp))
			return
		}
		if debit.Cmp(new(big.Int).Sub(before, commission)) != 0 {
			fail("sellall-debit", fmt.Sprintf("sold %s, balance minus fee is %s", debit, new(big.Int).Sub(before, commission)))
			return
		}
		if credit.Cmp(minBuy) < 0 {
			fail("below-minimum", fmt.Sprintf("credited %s, requested minimum %s", credit, minBuy))
			return
		}
		if credit.Cmp(ret) != 0 {
			fail("return-tag", fmt.Sprintf("credited %s but tx.return says %s", credit, ret))
			return
		}
	}
	w.Probe("c15_" + kind + "_checked")
	// tight limits (counterfactual variant on a fresh node over the same pre-block state): the very
	// same trade with its limit moved one unit beyond what was really obtained must not be accepted
	// and short-change the sender; with the limit exactly at what was obtained it must go through.
	if p.Variant != nil && (p.Height+int64(p.Index))%3 == 0 {
		one := big.NewInt(1)
		setLimit := func(lim *big.Int) []byte {
			return Resign(m, w.Sc.Gen.NAcct, func(tx *transaction.Transaction) bool {
				var data interface{}
				switch d := m.Data.(type) {
				case transaction.SellCoinData:
					d.MinimumValueToBuy = lim
					data = d
				case transaction.SellSwapPoolDataV260:
					d.MinimumValueToBuy = lim
					data = d
				case transaction.SellAllCoinData:
					d.MinimumValueToBuy = lim
					data = d
				case transaction.SellAllSwapPoolDataV260:
					d.MinimumValueToBuy = lim
					data = d
				case transaction.BuyCoinData:
					d.MaximumValueToSell = lim
					data = d
				case transaction.BuySwapPoolDataV260:
					d.MaximumValueToSell = lim
					data = d
				default:
					return false
				}
				enc, err := rlp.EncodeToBytes(data)
				if err != nil {
					return false
				}
				tx.Data = enc
				return true
			})
		}
		got, beyond := credit, new(big.Int).Add(credit, one)
		if kind == "buy" {
			got, beyond = debit, new(big.Int).Sub(debit, one)
		}
		if alt := setLimit(beyond); alt != nil && beyond.Sign() >= 0 {
			if vr := p.Variant(alt, true); vr != nil {
				switch {
				case vr.Err != nil:
					w.Report("C07", "no-panic", "tight-limit:"+vr.Phase+"@"+vr.Err.Site, fmt.Sprintf("height %d %s with its limit moved to %s (one unit beyond the %s really obtained): %s panics: %v\n%s", p.Height, m.Kind, beyond, got, vr.Phase, vr.Err, trimStack(vr.Err.Stack)), p.Height)
					return
				case vr.Resp.Code == 0:
					vret := new(big.Int)
					if t, ok := new(big.Int).SetString(vr.Tags["tx.return"], 10); ok {
						vret = t
					}
					if (kind == "buy" && vret.Cmp(beyond) > 0) || (kind != "buy" && vret.Cmp(beyond) < 0) {
						fail("tight-limit-ignored", fmt.Sprintf("the same trade with its limit at %s (one unit beyond the %s really obtained) is accepted and reports %s", beyond, got, vret))
						return
					}
				}
				w.Probe("c15_tight_limit_beyond_checked")
			}
		}
		if alt := setLimit(got); alt != nil {
			if vr := p.Variant(alt, true); vr != nil {
				if vr.Err != nil {
					w.Report("C07", "no-panic", "tight-limit:"+vr.Phase+"@"+vr.Err.Site, fmt.Sprintf("height %d %s with its limit exactly at the %s really obtained: %s panics: %v\n%s", p.Height, m.Kind, got, vr.Phase, vr.Err, trimStack(vr.Err.Stack)), p.Height)
					return
				}
				if vr.Resp.Code != 0 {
					// a refusal is conservative (the pre-check replays the fee conversion slightly
					// differently from the real one): C15 speaks about successful trades only
					w.Probe("c15_tight_limit_exact_refused")
				} else if vr.CheckCode != 0 && vr.CheckCode != 114 && vr.CheckCode != 113 {
					w.Report("C06", "check-deliver", "tight-limit:"+m.Kind, fmt.Sprintf("height %d %s with its limit exactly at %s: CheckTx answers %d, DeliverTx on the same state 0", p.Height, m.Kind, got, vr.CheckCode), p.Height)
					return
				}
				w.Probe("c15_tight_limit_exact_checked")
			}
		}
	}
	if gas != 0 {
		w.Probe("c15_custom_commission_coin")
	}
	if strings.Contains(p.Tags["tx.pools"], "[") && strings.Count(p.Tags["tx.pools"], "pool_id") > 1 {
		w.Probe("c15_multi_hop")
	}
}

// ---------------- C21 ----------------

// OracleC21: checks pay at most once, only to the password holder, exactly coin/value from the issuer.
type OracleC21 struct {
	redeemed map[string]int64
}

func (o *OracleC21) Judge(w *World, b *BlockCtx, p *ProbeResult) {
	m := p.Meta
	if m.Check == nil || m.Garbage || m.Malleated {
		return
	}
	if o.redeemed == nil {
		o.redeemed = map[string]int64{}
	}
	ic := m.Check
	key := string(ic.Raw)
	issuer := Acct(ic.Issuer).Addr
	if p.Resp.Code != 0 {
		if ic.GenesisUsed && ic.DueBlock >= uint64(p.Height) && m.ProofOK {
			w.Probe("c21_genesis_used_check_rejected")
		}
		w.Probe("c21_rejected")
		return
	}
	bad := ""
	switch {
	case o.redeemed[key] != 0:
		bad = fmt.Sprintf("redeemed-twice (first at height %d)", o.redeemed[key])
	case ic.GenesisUsed:
		bad = "redeemed-twice (the genesis lists this check as used)"
	case !ic.ChainOK:
		bad = "foreign-chain-check"
	case ic.DueBlock < uint64(p.Height):
		bad = fmt.Sprintf("expired (due block %d)", ic.DueBlock)
	case !m.ProofOK:
		bad = "wrong-proof"
	case m.GasCoin != ic.GasCoin:
		bad = "wrong-gas-coin"
	case len(ic.Nonce) > 16:
		bad = "nonce-too-long"
	}
	if bad != "" {
		w.Report("C21", "redeem-conditions", strings.Fields(bad)[0], fmt.Sprintf("height %d: redemption by %s accepted although %s; %s", p.Height, m.Sender.String(), bad, m.Note), p.Height)
		return
	}
	o.redeemed[key] = p.Height
	// effect: issuer -value (coin) -fee (gas coin), redeemer +value, fee footprint, used-check mark, nonce
	redeemer := m.Sender
	expIssuerCoin := new(big.Int).Neg(ic.Value)
	expRedeemer := new(big.Int).Set(ic.Value)
	commission := tagInt(p, "tx.commission_amount")
	if issuer == redeemer {
		expIssuerCoin, expRedeemer = big.NewInt(0), big.NewInt(0)
	}
	gotIssuer := balDelta(p, issuer, ic.Coin)
	gotRedeemer := balDelta(p, redeemer, ic.Coin)
	if ic.Coin == ic.GasCoin && commission != nil {
		gotIssuer = new(big.Int).Add(gotIssuer, commission)
		if issuer == redeemer {
			gotRedeemer = gotIssuer
		}
	}
	if commission != nil && (gotIssuer.Cmp(expIssuerCoin) != 0 || gotRedeemer.Cmp(expRedeemer) != 0) {
		w.Report("C21", "redeem-effect", "amounts", fmt.Sprintf("height %d: check of %s coin %d: issuer balance changed by %s (+fee), redeemer by %s; %s", p.Height, ic.Value, ic.Coin, gotIssuer, gotRedeemer, m.Note), p.Height)
		return
	}
	// the redeemer must not pay the fee
	if ic.GasCoin != ic.Coin && issuer != redeemer {
		// (a credit is possible when the fee conversion of this redemption fills a limit order the redeemer
		// owns in the gas coin's pool; a debit never is)
		if d := balDelta(p, redeemer, ic.GasCoin); d.Sign() < 0 || (d.Sign() > 0 && !ownsOrder(p.Before, redeemer)) {
			w.Report("C21", "redeem-effect", "redeemer-paid-fee", fmt.Sprintf("height %d: redeemer's gas-coin balance changed by %s", p.Height, d), p.Height)
			return
		}
	}
	// nothing else may change hands: every other balance delta must belong to the fee footprint
	tmp := *p
	var rest []Delta
	for _, d := range p.Delta {
		if d.Path == fmt.Sprintf("bal/%s/%d", redeemer.String(), ic.Coin) || d.Path == fmt.Sprintf("bal/%s/%d", issuer.String(), ic.Coin) && ic.Coin != ic.GasCoin {
			continue
		}
		if strings.HasPrefix(d.Path, "usedcheck/") || d.Path == "nonce/"+redeemer.String() {
			continue
		}
		rest = append(rest, d)
	}
	tmp.Delta = rest
	if un, _, _ := feeFootprint(&tmp, issuer, ic.GasCoin); len(un) > 0 {
		w.Report("C21", "redeem-effect", "extra:"+pathSeg(un[0].Path, 0), fmt.Sprintf("height %d: redemption changed more than issuer/redeemer/fee: %s", p.Height, fmtDeltas(un, 6)), p.Height)
		return
	}
	w.Probe("c21_redeemed")
}

// ---------------- C27 ----------------

func commField(c *types.Commission, name string) *big.Int {
	v := reflect.ValueOf(*c).FieldByName(name)
	if !v.IsValid() {
		panic("no commission field " + name)
	}
	return bi(v.String())
}

// expectedPrice computes gasPrice * (P(type) + bytes * P(byte)) from the exported table, with a
// type -> field map written from the property statement.
func expectedPrice(c *types.Commission, m *TxMeta) (*big.Int, *big.Int) {
	f := func(n string) *big.Int { return commField(c, n) }
	lin := func(base, delta string, n int) *big.Int {
		return new(big.Int).Add(f(base), new(big.Int).Mul(f(delta), big.NewInt(int64(n))))
	}
	ticker := big.NewInt(0)
	tick := func(sym types.CoinSymbol) *big.Int {
		switch len(sym.String()) {
		case 3:
			return f("CreateTicker3")
		case 4:
			return f("CreateTicker4")
		case 5:
			return f("CreateTicker5")
		case 6:
			return f("CreateTicker6")
		}
		return f("CreateTicker7_10")
	}
	var base *big.Int
	switch d := m.Data.(type) {
	case transaction.SendData:
		base = f("Send")
	case transaction.SellCoinData:
		base = f("SellBancor")
	case transaction.SellAllCoinData:
		base = f("SellAllBancor")
	case transaction.BuyCoinData:
		base = f("BuyBancor")
	case transaction.CreateCoinData:
		ticker = tick(d.Symbol)
		base = new(big.Int).Add(f("CreateCoin"), ticker)
	case transaction.CreateTokenData:
		ticker = tick(d.Symbol)
		base = new(big.Int).Add(f("CreateToken"), ticker)
	case transaction.RecreateCoinData:
		base = f("RecreateCoin")
	case transaction.RecreateTokenData:
		base = f("RecreateToken")
	case transaction.DeclareCandidacyData:
		base = f("DeclareCandidacy")
	case transaction.DelegateDataV260:
		base = f("Delegate")
	case transaction.UnbondDataV3:
		base = f("Unbond")
	case transaction.RedeemCheckData:
		base = f("RedeemCheck")
	case transaction.SetCandidateOnData:
		base = f("SetCandidateOn")
	case transaction.SetCandidateOffData:
		base = f("SetCandidateOff")
	case transaction.CreateMultisigData:
		base = f("CreateMultisig")
	case transaction.MultisendData:
		base = lin("MultisendBase", "MultisendDelta", len(d.List)-1)
	case transaction.EditCandidateData:
		base = f("EditCandidate")
	case transaction.SetHaltBlockData:
		base = f("SetHaltBlock")
	case transaction.EditCoinOwnerData:
		base = f("EditTickerOwner")
	case transaction.EditMultisigData:
		base = f("EditMultisig")
	case transaction.EditCandidatePublicKeyData:
		base = f("EditCandidatePublicKey")
	case transaction.AddLiquidityDataV260:
		base = f("AddLiquidity")
	case transaction.RemoveLiquidityV240:
		base = f("RemoveLiquidity")
	case transaction.SellSwapPoolDataV260:
		base = lin("SellPoolBase", "SellPoolDelta", len(d.Coins)-2)
	case transaction.BuySwapPoolDataV260:
		base = lin("BuyPoolBase", "BuyPoolDelta", len(d.Coins)-2)
	case transaction.SellAllSwapPoolDataV260:
		base = lin("SellAllPoolBase", "SellAllPoolDelta", len(d.Coins)-2)
	case transaction.EditCandidateCommission:
		base = f("EditCandidateCommission")
	case transaction.MoveStakeData:
		base = f("MoveStake")
	case transaction.MintTokenData:
		base = f("MintToken")
	case transaction.BurnTokenDataV260:
		base = f("BurnToken")
	case transaction.VoteCommissionDataV3:
		base = f("VoteCommission")
	case transaction.VoteUpdateDataV230:
		base = f("VoteUpdate")
	case transaction.CreateSwapPoolData:
		base = f("CreateSwapPool")
	case transaction.AddLimitOrderData:
		base = f("AddLimitOrder")
	case transaction.RemoveLimitOrderData:
		base = f("RemoveLimitOrder")
	case transaction.LockStakeData:
		base = f("LockStake")
	case transaction.LockData:
		base = f("Lock")
	default:
		return nil, nil
	}
	bytes := new(big.Int).Mul(f("PayloadByte"), big.NewInt(int64(m.Payload)))
	gp := big.NewInt(int64(m.GasPrice))
	return new(big.Int).Mul(gp, new(big.Int).Add(base, bytes)), new(big.Int).Mul(gp, ticker)
}

// OracleC27: fee arithmetic, payer debit and fee conservation.
type OracleC27 struct{}

func (OracleC27) Judge(w *World, b *BlockCtx, p *ProbeResult) {
	m := p.Meta
	if p.Resp.Code != 0 || m.Garbage || m.Malleated || m.Dup || w.Sc.Node.ValidatorMode {
		return
	}
	tbl := &b.Prev.Raw.Commission // the table in force during this block
	exp, ticker := expectedPrice(tbl, m)
	if exp == nil {
		return
	}
	price := tagInt(p, "tx.commission_price")
	if price == nil {
		w.Report("C27", "fee", "missing-tag", fmt.Sprintf("height %d accepted %s has no tx.commission_price tag", p.Height, m.Kind), p.Height)
		return
	}
	if price.Cmp(exp) != 0 {
		w.Report("C27", "fee", "price-table:"+m.Kind, fmt.Sprintf("height %d %s gas price %d payload %d: tx.commission_price %s, table says %s (table coin %d)", p.Height, m.Kind, m.GasPrice, m.Payload, price, exp, tbl.Coin), p.Height)
		return
	}
	w.Probe("c27_price_checked")
	commission := tagInt(p, "tx.commission_amount")
	inBase := tagInt(p, "tx.commission_in_base_coin")
	payer := m.Sender
	if m.Issuer != nil {
		payer = *m.Issuer
	}
	// conservation: what entered validators' accrual + total slashed + (ticker burn at the zero address)
	// equals the base value of the commission
	reward := big.NewInt(0)
	for _, d := range p.Delta {
		if (strings.HasPrefix(d.Path, "val/") && strings.HasSuffix(d.Path, "/accum")) || d.Path == "slashed" {
			if n := d.Num(); n != nil {
				reward.Add(reward, n)
			}
		}
	}
	if tbl.Coin == 0 && inBase != nil {
		// paying in a custom coin through the pool sells enough of it to buy the fee: the base
		// value that comes out may exceed the table price by rounding, never fall below it
		// (order fills on the commission pool round by a few pip either way; only the base-coin case is pinned)
		if m.GasCoin == 0 && inBase.Cmp(exp) != 0 {
			w.Report("C27", "fee", "base-value:"+m.Kind, fmt.Sprintf("height %d %s: base-coin table price %s but tx.commission_in_base_coin %s", p.Height, m.Kind, exp, inBase), p.Height)
			return
		}
		burned := big.NewInt(0)
		if t := tagInt(p, "tx.burned_for_symbol"); t != nil {
			burned = t
			if burned.Cmp(ticker) != 0 {
				w.Report("C27", "fee", "ticker-burn", fmt.Sprintf("height %d %s: burned for symbol %s, ticker price %s", p.Height, m.Kind, burned, ticker), p.Height)
				return
			}
			zero := balDelta(p, types.Address{}, 0)
			if _, isSend := m.Data.(transaction.SendData); !isSend && zero.Cmp(burned) < 0 {
				w.Report("C27", "fee", "ticker-burn-missing", fmt.Sprintf("height %d %s: zero address received %s, ticker fee %s", p.Height, m.Kind, zero, burned), p.Height)
				return
			}
			w.Probe("c27_ticker_burn")
		} else if ticker.Sign() > 0 {
			w.Report("C27", "fee", "ticker-not-burned", fmt.Sprintf("height %d %s: ticker fee %s was not burned", p.Height, m.Kind, ticker), p.Height)
			return
		}
		if want := new(big.Int).Sub(inBase, burned); reward.Cmp(want) != 0 && !affectsRewards(m) {
			w.Report("C27", "fee", "conservation:"+m.Kind, fmt.Sprintf("height %d %s: fee base value %s (ticker burn %s) but validators' accrual + total slashed grew by %s", p.Height, m.Kind, inBase, burned, reward), p.Height)
			return
		}
		w.Probe("c27_conservation_checked")
	}
	if m.GasCoin == 0 && tbl.Coin == 0 && commission != nil {
		if commission.Cmp(exp) != 0 {
			w.Report("C27", "fee", "amount-tag:"+m.Kind, fmt.Sprintf("height %d %s: tx.commission_amount %s, table says %s", p.Height, m.Kind, commission, exp), p.Height)
			return
		}
		// exact debit where the payer's base balance is touched by nothing else
		switch m.Data.(type) {
		case transaction.SetCandidateOnData, transaction.SetCandidateOffData, transaction.EditCandidateData, transaction.EditCandidateCommission,
			transaction.CreateMultisigData, transaction.EditMultisigData, transaction.EditCoinOwnerData, transaction.VoteCommissionDataV3, transaction.LockStakeData:
			if d := new(big.Int).Neg(balDelta(p, payer, 0)); d.Cmp(exp) != 0 && !ownsOrder(p.Before, payer) {
				w.Report("C27", "fee", "debit:"+m.Kind, fmt.Sprintf("height %d %s: payer's base balance fell by %s, fee is %s", p.Height, m.Kind, d, exp), p.Height)
				return
			}
			w.Probe("c27_exact_debit")
		}
	}
	if m.GasCoin != 0 {
		w.Probe("c27_custom_gas_coin")
		// custom gas coin paid through the bancor reserve: the coin's volume shrinks by exactly the
		// commission (checked for transaction types that do not touch coin supplies themselves)
		if commission != nil && commission.Sign() > 0 && p.Tags["tx.commission_conversion"] == "bancor" {
			switch m.Data.(type) {
			case transaction.SendData, transaction.MultisendData, transaction.SetCandidateOnData, transaction.SetCandidateOffData, transaction.EditCandidateData,
				transaction.EditCandidateCommission, transaction.CreateMultisigData, transaction.EditMultisigData, transaction.VoteCommissionDataV3, transaction.LockStakeData, transaction.RemoveLimitOrderData:
				vol := deltaOf(p, fmt.Sprintf("coin/%d/volume", m.GasCoin))
				if new(big.Int).Neg(vol).Cmp(commission) != 0 {
					w.Report("C27", "fee", "bancor-burn:"+m.Kind, fmt.Sprintf("height %d %s: commission %s paid through the reserve but the coin's volume changed by %s", p.Height, m.Kind, commission, vol), p.Height)
					return
				}
				w.Probe("c27_bancor_burn_checked")
			}
		}
	}
	if tbl.Coin != 0 {
		w.Probe("c27_custom_price_coin")
		// the gas price multiplies the table price BEFORE the conversion through the pool: selling g*p
		// of the price coin returns strictly less than g times what selling p returns (constant product).
		// Judged against the same transaction at gas price 1 on a fresh node over the same state.
		// (base gas coin only: with a custom gas coin the tag reports what the fee swap really returned,
		// which exceeds the converted price by round-trip rounding)
		if g := int64(m.GasPrice); g >= 2 && inBase != nil && p.Variant != nil && m.GasCoin == 0 {
			if alt := Resign(m, w.Sc.Gen.NAcct, func(tx *transaction.Transaction) bool { tx.GasPrice = 1; return true }); alt != nil {
				if vr := p.Variant(alt, false); vr != nil && vr.Err == nil && vr.Resp.Code == 0 {
					if in1, ok := new(big.Int).SetString(vr.Tags["tx.commission_in_base_coin"], 10); ok && in1.Sign() > 0 {
						var rBase *big.Int
						for _, pl := range p.Before.Pools {
							if pl.Coin0 == 0 && pl.Coin1 == tbl.Coin {
								rBase = bi(pl.Reserve0)
							}
						}
						if rBase != nil && rBase.Cmp(in1) > 0 && !hasOrdersOn(p.Before, tbl.Coin) {
							// constant product: f(x) = rB*a(x)/(1+a(x)) with a linear in x, so from f(p) alone
							// (whatever the pool fee) f(g*p) = rB*g*a/(1+g*a), a = f(p)/(rB-f(p))
							num := new(big.Int).Mul(new(big.Int).Mul(rBase, big.NewInt(g)), in1)
							den := new(big.Int).Add(new(big.Int).Sub(rBase, in1), new(big.Int).Mul(big.NewInt(g), in1))
							expect := num.Div(num, den)
							tol := new(big.Int).Add(new(big.Int).Div(expect, big.NewInt(1e9)), big.NewInt(1000))
							if diff := new(big.Int).Abs(new(big.Int).Sub(inBase, expect)); diff.Cmp(tol) > 0 {
								w.Report("C27", "fee", "gas-price-after-conversion:"+m.Kind, fmt.Sprintf("height %d %s at gas price %d: base value %s; the same transaction at gas price 1 is worth %s; through a constant-product pool holding %s base coins %d times the table price is worth %s (gas price times the unit value would be %s)", p.Height, m.Kind, g, inBase, in1, rBase, g, expect, new(big.Int).Mul(in1, big.NewInt(g))), p.Height)
								return
							}
							w.Probe("c27_gas_price_before_conversion_checked")
						}
					}
				}
			}
		}
	}
	// the cheaper of the two routes: when the gas coin has both a bancor reserve and a pool with the
	// base coin, the route taken must not be clearly dearer than the other one. Costs are bounded
	// from the pre-transaction state with textbook formulas (constant product without fee as the
	// lower bound and with a 1% fee as the upper bound of the pool route; the bancor curve in
	// floating point), so only differences far beyond rounding are judged.
	if m.GasCoin != 0 && tbl.Coin == 0 && commission != nil && commission.Sign() > 0 && exp.Sign() > 0 {
		switch m.Data.(type) {
		case transaction.SendData, transaction.MultisendData, transaction.SetCandidateOnData, transaction.SetCandidateOffData, transaction.EditCandidateData,
			transaction.EditCandidateCommission, transaction.CreateMultisigData, transaction.EditMultisigData, transaction.VoteCommissionDataV3, transaction.LockStakeData:
		default:
			return
		}
		coin := p.Before.Coins[m.GasCoin]
		var rGas, rBase *big.Int
		for _, pl := range p.Before.Pools {
			if pl.Coin0 == 0 && pl.Coin1 == m.GasCoin {
				rBase, rGas = bi(pl.Reserve0), bi(pl.Reserve1)
			}
		}
		if coin == nil || coin.Crr == 0 || rGas == nil {
			return
		}
		reserve, volume := bi(coin.Reserve), bi(coin.Volume)
		minReserve := new(big.Int).Mul(big.NewInt(10001), big.NewInt(1e18))
		if new(big.Int).Sub(reserve, exp).Cmp(minReserve) < 0 || new(big.Int).Mul(exp, big.NewInt(2)).Cmp(rBase) > 0 {
			return // one of the routes is (nearly) unavailable
		}
		fl := func(x *big.Int) float64 { f, _ := new(big.Float).SetInt(x).Float64(); return f }
		bancor := fl(volume) * (1 - math.Pow(1-fl(exp)/fl(reserve), float64(coin.Crr)/100))
		poolLow := fl(rGas) * fl(exp) / (fl(rBase) - fl(exp))
		poolHigh := poolLow * 1.01
		paid := fl(commission)
		switch p.Tags["tx.commission_conversion"] {
		case "bancor":
			if poolHigh < paid*(1-1e-6) && !hasOrdersOn(p.Before, m.GasCoin) {
				w.Report("C27", "fee", "dearer-route:bancor", fmt.Sprintf("height %d %s: commission %s of coin %d paid through the reserve although the pool route costs at most %.0f (reserves %s/%s)", p.Height, m.Kind, commission, m.GasCoin, poolHigh, rGas, rBase), p.Height)
				return
			}
			w.Probe("c27_cheaper_route_checked_bancor")
		case "pool":
			if bancor < paid*(1-1e-6) {
				w.Report("C27", "fee", "dearer-route:pool", fmt.Sprintf("height %d %s: commission %s of coin %d paid through the pool although the reserve route costs about %.0f (volume %s reserve %s crr %d)", p.Height, m.Kind, commission, m.GasCoin, bancor, volume, reserve, coin.Crr), p.Height)
				return
			}
			w.Probe("c27_cheaper_route_checked_pool")
		}
	}
}

func hasOrdersOn(s *Snap, coin uint64) bool {
	for _, pl := range s.Pools {
		if pl.Coin0 == 0 && pl.Coin1 == coin && len(pl.Orders) > 0 {
			return true
		}
	}
	return false
}

// affectsRewards: transactions whose own effect moves validators' accrual or total slashed.
func affectsRewards(m *TxMeta) bool { return false }

// touchesCoinSupply: transactions that change the volume of the coin by themselves.
func touchesCoinSupply(m *TxMeta, coin uint64) bool {
	switch d := m.Data.(type) {
	case transaction.SellCoinData:
		return uint64(d.CoinToSell) == coin || uint64(d.CoinToBuy) == coin
	case transaction.BuyCoinData:
		return uint64(d.CoinToSell) == coin || uint64(d.CoinToBuy) == coin
	case transaction.MintTokenData:
		return uint64(d.Coin) == coin
	case transaction.BurnTokenDataV260:
		return uint64(d.Coin) == coin
	case transaction.RecreateCoinData, transaction.RecreateTokenData:
		return true
	}
	return false
}

func distinctGenesisTable(r *rand.Rand, st *types.AppState) {
	// every price field gets its own value so that a lookup of the wrong field shows
	v := reflect.ValueOf(&st.Commission).Elem()
	for i := 0; i < v.NumField(); i++ {
		if v.Field(i).Kind() != reflect.String {
			continue
		}
		x := bi(v.Field(i).String())
		if x == nil {
			continue
		}
		x.Add(x, new(big.Int).Mul(big.NewInt(int64(1+i)), big.NewInt(1e13)))
		v.Field(i).SetString(x.String())
	}
}

func init() {
	register(&PropSpec{ID: "C15", Level: "exploration",
		Rule: "counterfactual probe twins of sell / buy / sell-all over bancor coins and pool routes of 2..5 coins with every commission-coin situation (incl. the commission swap moving a pool of the route) and limits at the computed amount, +-1, 0 and huge; oracle on the per-transaction diff: credit >= minimum, debit <= maximum, sell-all leaves zero and sells balance - fee, tx.return / tx.sell_amount / tx.commission_amount equal the balance changes; distinct non-trivial case = distinct (tx kind, result code) pair",
		Make: func(r *rand.Rand, seed int64, chain int, tier string) *Scenario {
			p := txProfile()
			for k := range p.W {
				p.W[k] = 1
			}
			for _, k := range []string{"sellpool", "buypool", "sellallpool", "sell", "buy", "sellall"} {
				p.W[k] = 14
			}
			p.W["addorder"], p.W["addliq"], p.W["createpool"], p.W["send"] = 6, 3, 3, 3
			p.PGasCustom = 0.5
			p.PBigAmt = 0.1
			p.PDup, p.PGarbage, p.PBadNonce, p.PBadSig = 0, 0, 0.01, 0.01
			sc := baseScenario("C15", r, seed, chain, tier, p, func(g *GenCfg, n *NodeCfg) {
				g.NPool = 3 + r.Intn(4)
				g.NCoin = 1 + r.Intn(3)
				g.NToken = 2 + r.Intn(3)
			})
			// slippage limits around the feasible amount
			for i := range sc.Blocks {
				for j := range sc.Blocks[i].Ops {
					o := &sc.Blocks[i].Ops[j]
					switch o.K {
					case "sell", "sellpool", "sellall", "sellallpool":
						if r.Intn(3) == 0 {
							o.V[1] = Amt{Mode: 0, M: uint64(1 + r.Intn(999)), E: r.Intn(22)}
						}
					case "buy", "buypool":
						if r.Intn(3) == 0 {
							o.V[1] = Amt{Mode: 1, M: uint64(1 + r.Intn(300))}
						}
					}
				}
			}
			if len(sc.Blocks) > 40 && tier != "thorough" {
				sc.Blocks = sc.Blocks[:40]
			}
			return sc
		},
		Monitors:     func(sc *Scenario) []Monitor { return []Monitor{&MonProbe{Oracles: []Prober{OracleC15{}}}} },
		Distinct:     probeDistinct,
		ExpectProbes: []string{"c15_sell_checked", "c15_buy_checked", "c15_sellall_checked", "c15_custom_commission_coin", "c15_tight_limit_beyond_checked", "c15_tight_limit_exact_checked"},
	})
	register(&PropSpec{ID: "C21", Level: "exploration",
		Rule: "reference model of issued checks (issuer, password key, nonce, due block, coin, value, gas coin, chain id); redemption attempts by right and wrong accounts, wrong password, proof for another address, after / at the due block, foreign chain id, wrong gas coin, twice in a block and in later blocks; oracle: accepted => every condition of the statement holds and the check was never redeemed before, and the per-transaction diff is exactly issuer -value -fee, redeemer +value; distinct non-trivial case = distinct (redeem result code) plus accepted/rejected classes",
		Make: func(r *rand.Rand, seed int64, chain int, tier string) *Scenario {
			p := txProfile()
			for k := range p.W {
				p.W[k] = 1
			}
			p.W["redeem"] = 30
			p.W["send"] = 4
			p.PDup, p.PGarbage = 0.05, 0
			sc := baseScenario("C21", r, seed, chain, tier, p, nil)
			if len(sc.Blocks) > 40 && tier != "thorough" {
				sc.Blocks = sc.Blocks[:40]
			}
			// half of the chains continue one on which some checks were already redeemed (genesis used_checks)
			if r.Intn(2) == 0 {
				st, _ := UnmarshalGenesis(sc.Genesis)
				for i := 0; i < 2+r.Intn(4); i++ {
					pc := PreCheck{Issuer: r.Intn(sc.Gen.NAcct), Pass: r.Intn(50), Coin: 0, Value: pip(float64(1 + r.Intn(50))).String(), Due: uint64(sc.InitialH) + uint64(20+r.Intn(2000)), Nonce: fmt.Sprintf("g%d", i)}
					_, h := pc.Build(types.ChainID(chain))
					st.UsedChecks = append(st.UsedChecks, types.UsedCheck(h))
					sc.PreUsed = append(sc.PreUsed, pc)
				}
				sc.Genesis = MarshalGenesis(st)
			}
			return sc
		},
		Monitors: func(sc *Scenario) []Monitor { return []Monitor{&MonProbe{Oracles: []Prober{&OracleC21{}}}} },
		Distinct: func(w *World) []string {
			var out []string
			for k := range w.Stats.ByKindCode {
				if strings.HasPrefix(k, "redeem/") {
					out = append(out, k)
				}
			}
			return out
		},
		ExpectProbes: []string{"c21_redeemed", "c21_rejected", "c21_genesis_used_check_rejected"},
	})
	register(&PropSpec{ID: "C27", Level: "exploration",
		Rule: "counterfactual probe twins of accepted transactions of every type x payload/service-data length x gas price x gas coin under genesis and voted price tables whose fields all differ (base and custom price-table coin); oracle: tx.commission_price == gasPrice*(P(type)+bytes*P(byte)) with a type->field map written from the statement, base value and ticker burn, exact payer debit where nothing else touches the balance, conservation of the fee into validators' accrual + total slashed; distinct non-trivial case = distinct (tx kind, gas-coin class, price-coin class)",
		Make: func(r *rand.Rand, seed int64, chain int, tier string) *Scenario {
			p := txProfile()
			p.PBigAmt = 0.05
			p.PPayload = 0.4
			p.PGasCustom = 0.35
			p.PDup, p.PGarbage, p.PBadNonce, p.PBadSig = 0, 0, 0.01, 0.01
			p.W["votecomm"] = 6
			var tweakDone bool
			sc := baseScenario("C27", r, seed, chain, tier, p, func(g *GenCfg, n *NodeCfg) {
				g.NPool = 2 + r.Intn(3)
				g.NCoin = 1 + r.Intn(3)
				if r.Intn(3) == 0 {
					g.PriceCoin = true
				}
				g.EqualStake = true // votes reach 2/3 more often
				tweakDone = true
			})
			_ = tweakDone
			st, _ := UnmarshalGenesis(sc.Genesis)
			distinctGenesisTable(r, &st)
			if r.Intn(3) == 0 {
				priceSwarm(rand.New(rand.NewSource(r.Int63())), &st.Commission)
			}
			sc.Genesis = MarshalGenesis(st)
			for i := range sc.Blocks {
				for j := range sc.Blocks[i].Ops {
					o := &sc.Blocks[i].Ops[j]
					if o.GP == 0 && r.Intn(3) == 0 {
						o.GP = uint32(1 + r.Intn(7))
					}
				}
			}
			if len(sc.Blocks) > 40 && tier != "thorough" {
				sc.Blocks = sc.Blocks[:40]
			}
			return sc
		},
		Monitors:     func(sc *Scenario) []Monitor { return []Monitor{&MonProbe{Oracles: []Prober{OracleC27{}}}} },
		Distinct:     probeDistinct,
		ExpectProbes: []string{"c27_price_checked", "c27_conservation_checked", "c27_exact_debit", "c27_custom_gas_coin", "c27_custom_price_coin", "c27_ticker_burn", "c27_cheaper_route_checked_bancor", "c27_cheaper_route_checked_pool", "c27_gas_price_before_conversion_checked"},
	})
}

func gasCoinIs(m *TxMeta, coin uint64) bool { return m.GasCoin == coin }
