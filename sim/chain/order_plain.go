//go:build !instr

package chain

// Instrumented reports whether this binary was built against the instrumented copy of the repository
// (seeded map iteration order). In a plain build map iteration order is Go's own per-iteration random
// order and SetOrder is a no-op.
const Instrumented = false

func setOrder(o uint64) {}

func rangeStats() (uint64, uint64) { return 0, 0 }
