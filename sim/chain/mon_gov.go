package chain

import (
	"encoding/json"
	"fmt"
	"math/big"
	"math/rand"
	"sort"

	"github.com/MinterTeam/minter-go-node/coreV2/transaction"
	"github.com/MinterTeam/minter-go-node/coreV2/types"
	abci "github.com/tendermint/tendermint/abci/types"
)

// MonC20 keeps the set of accepted governance votes and, at every voted height, decides with integer
// arithmetic whether a proposal holds strictly more than 2/3 of the present voting power.
type MonC20 struct {
	NopMonitor
	comm    map[uint64]map[string]map[types.Pubkey]bool // height -> table digest -> voters
	commTbl map[string]types.Commission
	upd     map[uint64]map[string]map[types.Pubkey]bool // height -> version -> voters
	halt    map[uint64]map[types.Pubkey]bool
	voted   map[string]bool // kind/height/pubkey -> an accepted vote exists
	classes map[string]bool
	versions int
}

func (m *MonC20) Genesis(w *World) {
	m.comm, m.upd, m.halt = map[uint64]map[string]map[types.Pubkey]bool{}, map[uint64]map[string]map[types.Pubkey]bool{}, map[uint64]map[types.Pubkey]bool{}
	m.commTbl, m.voted, m.classes = map[string]types.Commission{}, map[string]bool{}, map[string]bool{}
	m.versions = len(w.Node.App.UpdateVersions())
	// votes already in the genesis state
	for _, v := range w.GenesisState.CommissionVotes {
		k := tableDigest(v.Commission)
		m.commTbl[k] = v.Commission
		for _, pk := range v.Votes {
			m.addVote(m.comm, v.Height, k, pk)
		}
	}
}

func (m *MonC20) addVote(mm map[uint64]map[string]map[types.Pubkey]bool, h uint64, key string, pk types.Pubkey) {
	if mm[h] == nil {
		mm[h] = map[string]map[types.Pubkey]bool{}
	}
	if mm[h][key] == nil {
		mm[h][key] = map[types.Pubkey]bool{}
	}
	mm[h][key][pk] = true
}

func tableDigest(c types.Commission) string {
	b, _ := json.Marshal(c)
	return fmt.Sprintf("%x", hashOf(string(b)))
}

// commissionOf converts vote data into the exported table shape.
func commissionOf(d transaction.VoteCommissionDataV3) types.Commission {
	s := func(x *big.Int) string { return x.String() }
	return types.Commission{Coin: uint64(d.Coin), PayloadByte: s(d.PayloadByte), Send: s(d.Send), BuyBancor: s(d.BuyBancor), SellBancor: s(d.SellBancor), SellAllBancor: s(d.SellAllBancor),
		BuyPoolBase: s(d.BuyPoolBase), BuyPoolDelta: s(d.BuyPoolDelta), SellPoolBase: s(d.SellPoolBase), SellPoolDelta: s(d.SellPoolDelta), SellAllPoolBase: s(d.SellAllPoolBase), SellAllPoolDelta: s(d.SellAllPoolDelta),
		CreateTicker3: s(d.CreateTicker3), CreateTicker4: s(d.CreateTicker4), CreateTicker5: s(d.CreateTicker5), CreateTicker6: s(d.CreateTicker6), CreateTicker7_10: s(d.CreateTicker7to10),
		CreateCoin: s(d.CreateCoin), CreateToken: s(d.CreateToken), RecreateCoin: s(d.RecreateCoin), RecreateToken: s(d.RecreateToken), DeclareCandidacy: s(d.DeclareCandidacy),
		Delegate: s(d.Delegate), Unbond: s(d.Unbond), RedeemCheck: s(d.RedeemCheck), SetCandidateOn: s(d.SetCandidateOn), SetCandidateOff: s(d.SetCandidateOff), CreateMultisig: s(d.CreateMultisig),
		MultisendBase: s(d.MultisendBase), MultisendDelta: s(d.MultisendDelta), EditCandidate: s(d.EditCandidate), SetHaltBlock: s(d.SetHaltBlock), EditTickerOwner: s(d.EditTickerOwner),
		EditMultisig: s(d.EditMultisig), EditCandidatePublicKey: s(d.EditCandidatePublicKey), CreateSwapPool: s(d.CreateSwapPool), AddLiquidity: s(d.AddLiquidity), RemoveLiquidity: s(d.RemoveLiquidity),
		EditCandidateCommission: s(d.EditCandidateCommission), MintToken: s(d.MintToken), BurnToken: s(d.BurnToken), VoteCommission: s(d.VoteCommission), VoteUpdate: s(d.VoteUpdate),
		FailedTx: s(d.FailedTx), AddLimitOrder: s(d.AddLimitOrder), RemoveLimitOrder: s(d.RemoveLimitOrder), MoveStake: s(d.MoveStake), LockStake: s(d.LockStake), Lock: s(d.Lock)}
}

func (m *MonC20) AfterTx(w *World, b *BlockCtx, tm *TxMeta, r abci.ResponseDeliverTx) {
	if tm.Garbage || tm.Malleated {
		return
	}
	var kind string
	var h uint64
	var pk types.Pubkey
	switch d := tm.Data.(type) {
	case transaction.VoteCommissionDataV3:
		kind, h, pk = "comm", d.Height, d.PubKey
	case transaction.VoteUpdateDataV230:
		kind, h, pk = "upd", d.Height, d.PubKey
	case transaction.SetHaltBlockData:
		kind, h, pk = "halt", d.Height, d.PubKey
	default:
		return
	}
	vk := fmt.Sprintf("%s/%d/%s", kind, h, pk.String())
	if r.Code == 0 {
		if h < uint64(b.Height) {
			w.Report("C20", "vote-validity", "past-height-vote-accepted:"+kind, fmt.Sprintf("height %d: %s vote for height %d accepted", b.Height, kind, h), b.Height)
			return
		}
		if m.voted[vk] {
			w.Report("C20", "vote-validity", "duplicate-vote-accepted:"+kind, fmt.Sprintf("height %d: second %s vote of %s for height %d accepted", b.Height, kind, pk.String(), h), b.Height)
			return
		}
		m.voted[vk] = true
		if b.Prev.Vals[pk] != nil {
			listed := false
			for _, v := range b.Req.Votes {
				var a types.TmAddress
				copy(a[:], v.Validator.Address)
				if a == TmAddr(pk) {
					listed = true
				}
			}
			if !listed {
				w.Probe("c20_vote_of_elected_but_not_yet_signing_validator")
			}
		}
		switch d := tm.Data.(type) {
		case transaction.VoteCommissionDataV3:
			c := commissionOf(d)
			k := tableDigest(c)
			m.commTbl[k] = c
			m.addVote(m.comm, h, k, pk)
		case transaction.VoteUpdateDataV230:
			m.addVote(m.upd, h, d.Version, pk)
		case transaction.SetHaltBlockData:
			if m.halt[h] == nil {
				m.halt[h] = map[types.Pubkey]bool{}
			}
			m.halt[h][pk] = true
		}
		w.Probe("c20_vote_accepted")
	} else if h < uint64(b.Height) {
		w.Probe("c20_past_vote_rejected")
	} else if m.voted[vk] {
		w.Probe("c20_duplicate_vote_rejected")
	}
}

// presentPower returns, for the block being executed, the stake of every validator recorded as
// present: validator records of the previous export, filtered by the block's signed votes.
func presentPower(b *BlockCtx) (map[types.Pubkey]*big.Int, *big.Int) {
	signed := map[types.TmAddress]bool{}
	for _, v := range b.Req.Votes {
		if v.SignedLastBlock {
			var a types.TmAddress
			copy(a[:], v.Validator.Address)
			signed[a] = true
		}
	}
	pw := map[types.Pubkey]*big.Int{}
	total := new(big.Int)
	for pk, v := range b.Prev.Vals {
		if signed[TmAddr(pk)] {
			s := bi(v.TotalBipStake)
			if s == nil {
				continue
			}
			pw[pk] = s
			total.Add(total, s)
		}
	}
	return pw, total
}

// decide returns the winning proposal key or "" using integer arithmetic only.
func decide(props map[string]map[types.Pubkey]bool, pw map[types.Pubkey]*big.Int, total *big.Int) (string, string) {
	keys := make([]string, 0, len(props))
	for k := range props {
		keys = append(keys, k)
	}
	sort.Strings(keys)
	winner, note := "", ""
	for _, k := range keys {
		sup := new(big.Int)
		for pk := range props[k] {
			if p, ok := pw[pk]; ok {
				sup.Add(sup, p)
			}
		}
		l, r := new(big.Int).Mul(sup, big.NewInt(3)), new(big.Int).Mul(total, big.NewInt(2))
		switch l.Cmp(r) {
		case 1:
			winner = k
			note += fmt.Sprintf("[%s: support %s of %s: above 2/3] ", k, sup, total)
		case 0:
			note += fmt.Sprintf("[%s: support %s of %s: EXACTLY 2/3] ", k, sup, total)
		default:
			note += fmt.Sprintf("[%s: support %s of %s] ", k, sup, total)
		}
	}
	return winner, note
}

func (m *MonC20) AfterBlock(w *World, b *BlockCtx) {
	H := uint64(b.Height)
	if len(b.Req.Evidence) > 0 {
		return // punished validators are dropped from the tally mid-block: not modelled here
	}
	pw, total := presentPower(b)
	if total.Sign() == 0 {
		total = big.NewInt(1)
	}
	// halt: decided in BeginBlock(H)
	if voters, ok := m.halt[H]; ok && !gracePeriod(w, b.Height) {
		win, note := decide(map[string]map[types.Pubkey]bool{"halt": voters}, pw, total)
		cls := "halt/" + exactness(note)
		m.classes[cls] = true
		if (win != "") != b.Res.Stopped {
			w.Report("C20", "two-thirds", "halt:"+exactness(note), fmt.Sprintf("height %d: halt votes %s; expected stop=%v, node stopped=%v", b.Height, note, win != "", b.Res.Stopped), b.Height)
			return
		}
		w.Probe("c20_halt_decided")
	} else if b.Res.Stopped {
		// a stop needs a justification: voted halt here, or an unknown version voted in earlier
		if !m.unknownVersionActive(w) {
			w.Report("C07", "keeps-producing-blocks", "unjustified-stop", fmt.Sprintf("height %d: node stopped without a halt vote or unknown version", b.Height), b.Height)
		}
		return
	}
	if b.Cur == nil {
		return
	}
	// price-table and version tallies run in EndBlock: a validator switched off by a transaction of this
	// block is already leaving the set and is counted neither as present nor as a supporter
	for i, tm := range b.Metas {
		if d, ok := tm.Data.(transaction.SetCandidateOffData); ok && i < len(b.Res.Deliver) && b.Res.Deliver[i].Code == 0 && !tm.Garbage && !tm.Malleated {
			if p, ok := pw[d.PubKey]; ok {
				total = new(big.Int).Sub(total, p)
				delete(pw, d.PubKey)
				w.Probe("c20_voter_switched_off_in_tally_block")
			}
		}
	}
	if total.Sign() == 0 {
		total = big.NewInt(1)
	}
	if props, ok := m.comm[H]; ok {
		win, note := decide(props, pw, total)
		m.classes["comm/"+exactness(note)] = true
		prevT, curT := tableDigest(b.Prev.Raw.Commission), tableDigest(b.Cur.Raw.Commission)
		switch {
		case win == "" && prevT != curT:
			w.Report("C20", "two-thirds", "commission:"+exactness(note), fmt.Sprintf("height %d: price table changed although no proposal holds more than 2/3 of the present power: %s", b.Height, note), b.Height)
			return
		case win != "" && curT != win:
			w.Report("C20", "two-thirds", "commission-not-applied", fmt.Sprintf("height %d: proposal %s holds more than 2/3 (%s) but the exported table is %s", b.Height, win, note, curT), b.Height)
			return
		}
		w.Probe("c20_commission_decided")
		if win != "" {
			w.Probe("c20_commission_passed")
		}
	}
	if props, ok := m.upd[H]; ok {
		win, note := decide(props, pw, total)
		m.classes["upd/"+exactness(note)] = true
		vs := w.Node.App.UpdateVersions()
		added := ""
		if len(vs) > m.versions {
			added = vs[len(vs)-1].Name
		}
		m.versions = len(vs)
		if added != win {
			w.Report("C20", "two-thirds", "version:"+exactness(note), fmt.Sprintf("height %d: version votes %s; expected new version %q, node recorded %q", b.Height, note, win, added), b.Height)
			return
		}
		w.Probe("c20_version_decided")
		if win != "" {
			w.Probe("c20_version_passed")
		}
	}
}

func (m *MonC20) unknownVersionActive(w *World) bool {
	known := map[string]bool{"v300": true, "v310": true, "v320": true, "v330": true}
	for _, v := range w.Node.App.UpdateVersions() {
		if !known[v.Name] {
			return true
		}
	}
	return false
}

func exactness(note string) string {
	switch {
	case containsStr(note, "EXACTLY 2/3"):
		return "exactly-2/3"
	case containsStr(note, "above 2/3"):
		return "above"
	}
	return "below"
}

func containsStr(s, sub string) bool {
	for i := 0; i+len(sub) <= len(s); i++ {
		if s[i:i+len(sub)] == sub {
			return true
		}
	}
	return false
}

// gracePeriod: a halt is not applied in upgrade blocks (grace.IsUpgradeBlock); the first 120 blocks
// after genesis are a non-upgrade grace period, upgrade periods follow version updates.
func gracePeriod(w *World, h int64) bool {
	// grace.IsUpgradeBlock is only true at the exact start height of an "upgrade" period; the only such
	// period starts at the genesis height, which is never executed
	return false
}

func init() {
	register(&PropSpec{ID: "C20", Level: "exploration",
		Rule: "governance histories over validator sets whose stakes are equal, small-integer multiples or large coprime numbers, so that voter subsets sit exactly at, just below and just above 2/3 of the present power; votes of all three kinds (price table variants, version names, halt) target shared heights, with absent validators, non-validator voters, past-height and duplicate votes; oracle: integer tally 3*support > 2*present decides what must be observed (exported price table, recorded versions, stop hook); distinct non-trivial case = distinct (vote kind, below / exactly / above 2/3) class",
		Make: func(r *rand.Rand, seed int64, chain int, tier string) *Scenario {
			// seton / setoff make validators leave and rejoin the set: for two blocks after an election the
			// state's validators and the signers of the commit differ (elected but not yet voting)
			p := Profile{W: map[string]int{"votecomm": 10, "voteupdate": 3, "sethalt": 1, "send": 2, "delegate": 1, "setoff": 1, "seton": 2}, TxMin: 1, TxMax: 5, PAbsent: 0.05}
			sc := baseScenario("C20", r, seed, chain, tier, p, func(g *GenCfg, n *NodeCfg) {
				g.NVal = []int{3, 3, 6, 4, 5}[r.Intn(5)]
				g.NCand = r.Intn(2)
				g.EqualStake = r.Intn(3) != 0
				g.NAcct = 10 + r.Intn(6)
				n.Period = []uint64{4, 6, 6, 12}[r.Intn(4)]
			})
			// every validator's candidate gets its own owner so that all of them can vote
			st, _ := UnmarshalGenesis(sc.Genesis)
			for i := range st.Candidates {
				st.Candidates[i].OwnerAddress = Acct(i % sc.Gen.NAcct).Addr
				st.Candidates[i].ControlAddress = Acct(i % sc.Gen.NAcct).Addr
				st.Candidates[i].Status = 2
			}
			if !sc.Gen.EqualStake {
				// small integer multiples: 1,1,2 / 1,2,3 ...
				for i := range st.Candidates {
					if i >= len(st.Validators) {
						break
					}
					k := int64(1 + r.Intn(3))
					v := new(big.Int).Mul(pip(10000), big.NewInt(k))
					st.Candidates[i].Stakes = []types.Stake{{Owner: Acct(i % sc.Gen.NAcct).Addr, Coin: 0, Value: v.String(), BipValue: v.String()}}
					st.Candidates[i].TotalBipStake = v.String()
					st.Validators[i].TotalBipStake = v.String()
				}
			}
			sc.Genesis = MarshalGenesis(st)
			if len(sc.Blocks) > 48 && tier != "thorough" {
				sc.Blocks = sc.Blocks[:48]
			}
			for i := range sc.Blocks {
				h := sc.InitialH + int64(i)
				target := (h/4 + 1) * 4
				for j := range sc.Blocks[i].Ops {
					o := &sc.Blocks[i].Ops[j]
					switch o.K {
					case "votecomm", "voteupdate", "sethalt":
						o.X[0] = int64(r.Intn(sc.Gen.NVal + sc.Gen.NCand))
						o.X[1] = target - h
						o.X[2] = int64(r.Intn(2)) // two competing tables
						o.X[3] = 0                // as owner
						o.X[4] = 0
						if r.Intn(12) == 0 {
							o.X[1] = -int64(1 + r.Intn(3)) // past height
						}
						if o.K == "voteupdate" {
							o.S = []string{"v310", "v320", "v330"}[r.Intn(3)]
							if r.Intn(15) == 0 {
								o.S = "v340"
							}
						}
						o.NM, o.SM, o.MS, o.CH, o.G = 0, 0, nil, 0, 0
					}
				}
				sc.Blocks[i].Evidence = nil
				sc.Blocks[i].AllAbsent = false
			}
			// the node is restarted now and then: votes already committed must still count as cast
			if r.Intn(2) == 0 {
				sc.Params = map[string]int64{"main_restart": 1}
				for i := range sc.Blocks {
					if i > 0 && r.Intn(8) == 0 {
						sc.Blocks[i].Restart = true
					}
				}
			}
			return sc
		},
		Monitors: func(sc *Scenario) []Monitor { return []Monitor{&MonC20{}} },
		ChainFor: func(i int) int { return 1 + i%2 },
		Distinct: func(w *World) []string {
			for _, m := range w.Monitors {
				if c, ok := m.(*MonC20); ok {
					var out []string
					for k := range c.classes {
						out = append(out, k)
					}
					return out
				}
			}
			return nil
		},
		ExpectProbes: []string{"c20_vote_accepted", "c20_commission_decided", "c20_commission_passed", "c20_version_decided", "c20_halt_decided", "c20_past_vote_rejected", "c20_duplicate_vote_rejected"},
	})
}
