package chain

import (
	"fmt"
	"math/big"
	"math/rand"
	"strings"
	"sync"

	"github.com/MinterTeam/minter-go-node/coreV2/check"
	"github.com/MinterTeam/minter-go-node/coreV2/transaction"
	"github.com/MinterTeam/minter-go-node/coreV2/types"
	abci "github.com/tendermint/tendermint/abci/types"
)

var txDecoder = transaction.NewExecutorV3(transaction.GetDataV3)

const burnAddr = "Mx00cedde786b34d733d1dc96559253081572df2c6"

func pathSeg(p string, i int) string {
	s := strings.Split(p, "/")
	if i < len(s) {
		return s[i]
	}
	return ""
}

// feeFootprint checks that a set of deltas is explainable as "payer paid f in gasCoin, f was converted
// to base through the coin's reserve or the (gasCoin, base) pool (possibly filling orders of that
// pool), and the base value reached validators' accumulated rewards / total slashed". It returns the
// deltas it could not explain and the amount the payer lost.
func feeFootprint(p *ProbeResult, payer types.Address, gasCoin uint64) (unexplained []Delta, paid *big.Int, reward *big.Int) {
	paid, reward = big.NewInt(0), big.NewInt(0)
	payerKey := fmt.Sprintf("bal/%s/%d", payer.String(), gasCoin)
	poolKey := fmt.Sprintf("pool/0-%d/", gasCoin)
	// orders of the commission pool before/after
	poolOrders := map[string]bool{}
	orderOwners := map[string]bool{}
	collect := func(s *Snap) {
		for _, pl := range s.Pools {
			if pl.Coin0 == 0 && pl.Coin1 == gasCoin {
				for _, o := range pl.Orders {
					poolOrders[fmt.Sprint(o.ID)] = true
					orderOwners[o.Owner.String()] = true
				}
			}
		}
	}
	collect(p.Before)
	collect(p.After)
	for _, d := range p.Delta {
		n := d.Num()
		switch {
		case d.Path == payerKey:
			if n == nil || n.Sign() > 0 {
				unexplained = append(unexplained, d)
			} else {
				paid = new(big.Int).Neg(n)
			}
		case strings.HasPrefix(d.Path, "val/") && strings.HasSuffix(d.Path, "/accum"), d.Path == "slashed":
			// the per-validator split leaves a rounding remainder in total slashed, so single
			// entries may move either way; their sum is the base value that reached the reward pool
			if n == nil {
				unexplained = append(unexplained, d)
			} else {
				reward.Add(reward, n)
			}
		case gasCoin != 0 && (d.Path == fmt.Sprintf("coin/%d/volume", gasCoin) || d.Path == fmt.Sprintf("coin/%d/reserve", gasCoin)):
			if n == nil || n.Sign() > 0 {
				unexplained = append(unexplained, d)
			}
		case gasCoin != 0 && strings.HasPrefix(d.Path, poolKey) && !strings.HasSuffix(d.Path, "/id"):
		case gasCoin != 0 && strings.HasPrefix(d.Path, "order/") && poolOrders[pathSeg(d.Path, 1)]:
		case gasCoin != 0 && strings.HasPrefix(d.Path, "bal/") && (pathSeg(d.Path, 2) == fmt.Sprint(gasCoin) || pathSeg(d.Path, 2) == "0") && (orderOwners[pathSeg(d.Path, 1)] || pathSeg(d.Path, 1) == burnAddr) && n != nil && n.Sign() > 0:
		default:
			unexplained = append(unexplained, d)
		}
	}
	return
}

// ---------------- C03 ----------------

// OracleC03: a rejected delivery changes nothing but the (capped) failure fee and its conversion;
// an accepted one bumps the sender's nonce by exactly one.
type OracleC03 struct{}

func (OracleC03) Judge(w *World, b *BlockCtx, p *ProbeResult) {
	m := p.Meta
	if p.Resp.Code == 0 {
		if m.Garbage || m.Malleated {
			return // C04/C26 judge acceptance of re-encodings
		}
		nk := "nonce/" + m.Sender.String()
		cnt := 0
		for _, d := range p.Delta {
			if strings.HasPrefix(d.Path, "nonce/") {
				cnt++
				if d.Path != nk || d.Num() == nil || d.Num().Cmp(big.NewInt(1)) != 0 {
					w.Report("C03", "accepted-nonce+1", "nonce:"+m.Kind, fmt.Sprintf("height %d accepted %s from %s: nonce change %s: %q -> %q", p.Height, m.Kind, m.Sender.String(), d.Path, d.Old, d.New), p.Height)
					return
				}
			}
		}
		if cnt != 1 {
			w.Report("C03", "accepted-nonce+1", "nonce-unchanged:"+m.Kind, fmt.Sprintf("height %d accepted %s from %s but the sender's nonce did not change", p.Height, m.Kind, m.Sender.String()), p.Height)
			return
		}
		w.Probe("c03_accepted")
		return
	}
	if len(p.Delta) == 0 {
		w.Probe("c03_rejected_free")
		return
	}
	payer := m.Sender
	if m.Issuer != nil && m.Type == byte(transaction.TypeRedeemCheck) {
		payer = *m.Issuer
	}
	if m.Garbage {
		// bytes the harness did not build: a mutation can still be a well-formed transaction of
		// whatever address its signature recovers to. Read the signed fields back with the decoder.
		tx, err := txDecoder.DecodeFromBytes(m.Bytes)
		var s types.Address
		if err == nil {
			s, err = tx.Sender()
		}
		if err != nil {
			w.Report("C03", "failed-only-fee", "garbage-charged", fmt.Sprintf("height %d: undecodable bytes (code %d) changed state: %s", p.Height, p.Resp.Code, fmtDeltas(p.Delta, 8)), p.Height)
			return
		}
		mm := *m
		mm.Sender, mm.GasCoin, mm.GasPrice, mm.Payload, mm.Type, mm.Issuer = s, uint64(tx.CommissionCoin()), tx.GasPrice, len(tx.Payload)+len(tx.ServiceData), byte(tx.Type), nil
		payer = s
		if rd, ok := tx.GetDecodedData().(*transaction.RedeemCheckData); ok {
			if ck, err := check.DecodeFromBytes(rd.RawCheck); err == nil {
				if is, err := ck.Sender(); err == nil {
					mm.Issuer = &is
					payer = is
				}
			}
		}
		m = &mm
		w.Probe("c03_mutated_but_wellformed")
	}
	un, paid, reward := feeFootprint(p, payer, m.GasCoin)
	if len(un) > 0 {
		w.Report("C03", "failed-only-fee", pathSeg(un[0].Path, 0)+":"+m.Kind, fmt.Sprintf("height %d rejected %s (code %d, log %q) from %s gas coin %d changed more than the failure fee: %s (all changes: %s)",
			p.Height, m.Kind, p.Resp.Code, p.Resp.Log, m.Sender.String(), m.GasCoin, fmtDeltas(un, 6), fmtDeltas(p.Delta, 12)), p.Height)
		return
	}
	if reward.Sign() < 0 {
		w.Report("C03", "failed-only-fee", "reward-pool-shrank", fmt.Sprintf("height %d rejected %s: validators' accrual + total slashed changed by %s", p.Height, m.Kind, reward), p.Height)
		return
	}
	balBefore := p.Before.Balance(payer, m.GasCoin)
	if paid.Cmp(balBefore) > 0 {
		w.Report("C03", "failed-only-fee", "fee>balance", fmt.Sprintf("height %d rejected %s: payer paid %s but held %s", p.Height, m.Kind, paid, balBefore), p.Height)
		return
	}
	if m.GasCoin == 0 {
		// base gas coin, base price coin: the fee is the table's failed-tx price
		if paid.Cmp(reward) != 0 {
			w.Report("C03", "failed-only-fee", "fee!=reward", fmt.Sprintf("height %d rejected %s: payer paid %s base coin but the reward pool grew by %s", p.Height, m.Kind, paid, reward), p.Height)
			return
		}
		if tbl := b.Prev.Raw.Commission; tbl.Coin == 0 { // the table in force during the block
			exp := new(big.Int).Add(bi(tbl.FailedTx), new(big.Int).Mul(big.NewInt(int64(m.Payload)), bi(tbl.PayloadByte)))
			exp.Mul(exp, big.NewInt(int64(m.GasPrice)))
			if exp.Cmp(balBefore) > 0 {
				exp = balBefore
			}
			if paid.Cmp(exp) != 0 {
				w.Report("C03", "failed-only-fee", "fee-amount", fmt.Sprintf("height %d rejected %s: payer paid %s, the failure fee capped at the balance is %s", p.Height, m.Kind, paid, exp), p.Height)
				return
			}
		}
	}
	w.Probe("c03_rejected_fee")
	if m.GasCoin != 0 {
		w.Probe("c03_rejected_fee_custom_coin")
	}
}

// ---------------- C26 ----------------

// OracleC26: a later delivery of bytes that were delivered before is rejected and changes nothing.
type OracleC26 struct{}

func (OracleC26) Judge(w *World, b *BlockCtx, p *ProbeResult) {
	m := p.Meta
	if !m.Dup {
		return
	}
	first := "failed-first"
	if m.FirstCode == 0 {
		first = "accepted-first"
	}
	w.Probe("c26_redelivery_" + first)
	if p.Resp.Code == 0 {
		w.Report("C26", "redelivery", first+"/accepted-again", fmt.Sprintf("height %d: %s bytes delivered before (first result code %d) were accepted again", p.Height, m.Kind, m.FirstCode), p.Height)
		return
	}
	if len(p.Delta) > 0 {
		w.Report("C26", "redelivery", first+"/charged-again", fmt.Sprintf("height %d: redelivery of %s bytes (first result code %d, now code %d) changed state again: %s", p.Height, m.Op.K, m.FirstCode, p.Resp.Code, fmtDeltas(p.Delta, 8)), p.Height)
	}
}

// ---------------- C04 ----------------

// MonC04 keeps the reference nonce model and judges every delivery.
type MonC04 struct {
	NopMonitor
	nonce map[types.Address]uint64
	accepted map[string]bool
}

func (m *MonC04) Genesis(w *World) {
	m.nonce = map[types.Address]uint64{}
	m.accepted = map[string]bool{}
	for a, n := range w.Prev.Nonce {
		m.nonce[a] = n
	}
}

func (m *MonC04) AfterTx(w *World, b *BlockCtx, tm *TxMeta, r abci.ResponseDeliverTx) {
	key := string(tm.Bytes)
	sender, nonce, chainOK, known := tm.Sender, tm.Nonce, tm.ChainOK, !tm.Garbage && !tm.Malleated
	if !known || tm.SigMode == 4 {
		// bytes the harness did not sign itself: read the signed fields back with the repo's decoder
		tx, err := txDecoder.DecodeFromBytes(tm.Bytes)
		if err != nil {
			if r.Code == 0 {
				w.Report("C04", "in-order-once", "undecodable-accepted", fmt.Sprintf("height %d: bytes the decoder rejects were accepted", b.Height), b.Height)
			}
			return
		}
		s, err := tx.Sender()
		if err != nil {
			if r.Code == 0 {
				w.Report("C04", "in-order-once", "unsigned-accepted", fmt.Sprintf("height %d: transaction without a recoverable sender accepted", b.Height), b.Height)
			}
			return
		}
		sender, nonce, chainOK = s, tx.Nonce, tx.ChainID == w.Chain
	}
	if r.Code == 0 {
		cls := ""
		switch {
		case m.accepted[key]:
			cls = "same-bytes-accepted-twice"
		case !chainOK:
			cls = "foreign-chain-id-accepted"
		case nonce != m.nonce[sender]+1:
			cls = "out-of-order-accepted"
			if nonce <= m.nonce[sender] {
				cls = "stale-nonce-accepted"
			}
		}
		if cls != "" {
			w.Report("C04", "in-order-once", cls+":"+tm.Op.K, fmt.Sprintf("height %d: %s (op %s) from %s accepted with nonce %d, chain ok %v; last accepted nonce of the sender is %d", b.Height, tm.Kind, tm.Op.K, sender.String(), nonce, chainOK, m.nonce[sender]), b.Height)
			return
		}
		m.nonce[sender] = nonce
		m.accepted[key] = true
		w.Probe("c04_accepted")
		if tm.Malleated || tm.Dup {
			w.Probe("c04_dup_first_time_accepted")
		}
	} else {
		if tm.Dup || tm.Malleated {
			w.Probe("c04_dup_rejected")
		}
		if tm.Op.NM != 0 {
			w.Probe("c04_bad_nonce_rejected")
		}
	}
	if got := w.Node.App.CurrentState().Accounts().GetNonce(sender); got != m.nonce[sender] {
		w.Report("C04", "in-order-once", "nonce-model:"+tm.Kind, fmt.Sprintf("height %d after %s (code %d): node reports nonce %d for %s, the reference model %d", b.Height, tm.Kind, r.Code, got, sender.String(), m.nonce[sender]), b.Height)
	}
}

func txProfile() Profile {
	p := GeneralProfile()
	p.PBigAmt = 0.3
	p.PGasCustom = 0.4
	p.PPayload = 0.25
	p.PAbsent, p.PStreak, p.PEvidence, p.PClockJump = 0.01, 0, 0, 0.01
	p.TxMin, p.TxMax = 1, 5
	return p
}

func probeDistinct(w *World) []string {
	var out []string
	for k := range w.Stats.ByKindCode {
		out = append(out, k)
	}
	return out
}

func init() {
	register(&PropSpec{ID: "C03", Level: "exploration",
		Rule: "counterfactual probe twins: for every transaction of a block at an attributable height two fresh nodes over clones of the pre-block disk execute the block with and without it and their cold exports are diffed entity by entity; rejected deliveries may differ only in the payer's capped failure fee, its conversion (coin reserve or commission pool incl. order fills) and the reward pool; accepted ones must bump exactly the sender's nonce by one; distinct non-trivial case = distinct (tx kind, result code) pair",
		Make: func(r *rand.Rand, seed int64, chain int, tier string) *Scenario {
			p := txProfile()
			p.PBigAmt = 0.45 // bias to failures after signature/nonce validation
			// rejections that come after the check phase has replayed a fee conversion through an order book
			p.W["dustorder"], p.W["remdust"], p.W["fillorder"], p.W["addorder"] = 8, 8, 5, 6
			sc := baseScenario("C03", r, seed, chain, tier, p, func(g *GenCfg, n *NodeCfg) {
				g.NPool = 2 + r.Intn(4)
				g.NCoin = 1 + r.Intn(3)
				if r.Intn(4) == 0 {
					g.PriceCoin = true
				}
			})
			if len(sc.Blocks) > 40 && tier != "thorough" {
				sc.Blocks = sc.Blocks[:40]
			}
			return sc
		},
		Monitors: func(sc *Scenario) []Monitor {
			// MonHotCold: a rejected transaction must not leave a trace in memory either (the probes
			// compare committed states only)
			return []Monitor{&MonProbe{Oracles: []Prober{OracleC03{}}}, MonHotCold{}}
		},
		Distinct: probeDistinct,
		ExpectProbes: []string{"probe_tx", "c03_accepted", "c03_rejected_free", "c03_rejected_fee", "c03_rejected_fee_custom_coin"},
	})
	register(&PropSpec{ID: "C26", Level: "exploration",
		Rule: "histories in which earlier delivered transaction bytes are delivered again (same block, later blocks, after the sender moved on); each redelivery is probed with counterfactual twins and must be rejected with an empty state diff; distinct non-trivial case = distinct (kind of the redelivered tx, first result code, redelivery result code)",
		Make: func(r *rand.Rand, seed int64, chain int, tier string) *Scenario {
			p := txProfile()
			p.PDup = 0.3
			p.PGarbage = 0
			sc := baseScenario("C26", r, seed, chain, tier, p, nil)
			for i := range sc.Blocks {
				for j := range sc.Blocks[i].Ops {
					if k := sc.Blocks[i].Ops[j].K; k == "malleate" || k == "mutate" {
						sc.Blocks[i].Ops[j].K = "redeliver"
					}
				}
			}
			if len(sc.Blocks) > 40 && tier != "thorough" {
				sc.Blocks = sc.Blocks[:40]
			}
			// most runs only redeliver transactions that were accepted (the failed-first case is a
			// recorded finding and would end every run at its first occurrence)
			if r.Intn(5) != 0 {
				sc.Params = map[string]int64{"dup_accepted_only": 1}
			}
			return sc
		},
		Monitors: func(sc *Scenario) []Monitor { return []Monitor{&MonProbe{Oracles: []Prober{OracleC26{}}}} },
		Distinct: func(w *World) []string {
			var out []string
			for k := range w.Stats.ByKindCode {
				if strings.HasPrefix(k, "redeliver/") {
					out = append(out, k)
				}
			}
			for k := range w.DupKinds {
				out = append(out, k)
			}
			return out
		},
		ExpectProbes: []string{"c26_redelivery_accepted-first", "c26_redelivery_failed-first"},
	})
	register(&PropSpec{ID: "C04", Level: "exploration",
		Rule: "histories with duplicates, stale/future/zero nonces, foreign chain ids, malleated re-encodings and replays of earlier transactions on both chain ids; reference model nonce[sender] judged after every DeliverTx (accept iff nonce == last+1 and chain id matches, never the same bytes twice) and compared with the node's live nonce; distinct non-trivial case = distinct (op kind, nonce mode, result class)",
		Make: func(r *rand.Rand, seed int64, chain int, tier string) *Scenario {
			p := txProfile()
			p.PDup, p.PBadNonce, p.PWrongChain, p.PMultisig, p.PBadSig = 0.2, 0.15, 0.05, 0.1, 0.06
			p.TxMax = 8
			p.PRestart = 0.05
			sc := baseScenario("C04", r, seed, chain, tier, p, nil)
			// the node is restarted now and then: a nonce that lived only in memory would come back stale
			if r.Intn(2) == 0 {
				sc.Params = map[string]int64{"main_restart": 1}
			}
			return sc
		},
		Monitors: func(sc *Scenario) []Monitor { return []Monitor{&MonC04{}} },
		ChainFor: func(i int) int { return 1 + i%2 },
		Distinct: func(w *World) []string {
			var out []string
			for k := range w.Stats.ByKindCode {
				out = append(out, k)
			}
			return out
		},
		ExpectProbes: []string{"c04_accepted", "c04_dup_rejected", "c04_bad_nonce_rejected", "main_node_restarted"},
	})
}

// ---------------- C06 ----------------

// MonC06 passes every transaction to the real CheckTx on the same mid-block state immediately before
// DeliverTx and compares acceptance. CheckTx-only rejections (gas-price floor, one tx per sender in the
// mempool) are excluded as the statement says; for those the same executor is called directly on the
// check state without the mempool rules so that the pair is still compared.
type MonC06 struct {
	NopMonitor
	check     uint32
	checkLog  string
	excluded  bool
	classes   map[string]bool
}

func (m *MonC06) Genesis(w *World) { m.classes = map[string]bool{} }

func (m *MonC06) BeforeTx(w *World, b *BlockCtx, tm *TxMeta) {
	r, cerr := w.Node.Check(tm.Bytes)
	if cerr != nil {
		w.Report("C07", "no-panic", "CheckTx@"+cerr.Site, fmt.Sprintf("%v\nop=%s\n%s", cerr.Error(), opJSON(tm.Op), trimStack(cerr.Stack)), b.Height)
		return
	}
	m.check, m.checkLog, m.excluded = r.Code, r.Log, false
	if r.Code == 113 || r.Code == 114 {
		m.excluded = true
		w.Probe("c06_checktx_only_rejection")
		var resp transaction.Response
		cerr := w.Node.call("CheckTx(direct)", func() {
			resp = txDecoder.RunTx(w.Node.App.CurrentState(), tm.Bytes, nil, w.Node.App.Height()+1, &sync.Map{}, 0, true)
		})
		if cerr != nil {
			w.Report("C07", "no-panic", "CheckTx@"+cerr.Site, cerr.Error(), b.Height)
			return
		}
		m.check, m.checkLog = resp.Code, resp.Log
	}
}

func (m *MonC06) AfterTx(w *World, b *BlockCtx, tm *TxMeta, r abci.ResponseDeliverTx) {
	if (m.check == 0) != (r.Code == 0) {
		dir := "check-accepts/deliver-rejects"
		if m.check != 0 {
			dir = "check-rejects/deliver-accepts"
		}
		w.Report("C06", "check-equals-deliver", dir+":"+tm.Kind, fmt.Sprintf("height %d %s (op %s): CheckTx code %d (%q), DeliverTx immediately afterwards code %d (%q); gas coin %d gas price %d",
			b.Height, tm.Kind, opJSON(tm.Op), m.check, m.checkLog, r.Code, r.Log, tm.GasCoin, tm.GasPrice), b.Height)
		return
	}
	m.classes[fmt.Sprintf("%s/%d", tm.Kind, r.Code)] = true
	w.Probe("c06_pair_compared")
	if tm.GasCoin != 0 {
		w.Probe("c06_custom_gas_coin")
	}
}

func init() {
	register(&PropSpec{ID: "C06", Level: "exploration",
		Rule: "every delivered transaction is first given to the real Blockchain.CheckTx on the same mid-block state, then immediately to DeliverTx; acceptance must agree (gas-price floor and one-per-sender rejections excluded and re-checked through the executor without mempool rules); workload biased to swaps through the commission pool, custom gas coins, limits at the computed amount, order-book interaction; distinct non-trivial case = distinct (tx kind, result code) pair compared",
		Make: func(r *rand.Rand, seed int64, chain int, tier string) *Scenario {
			p := txProfile()
			p.PGasCustom = 0.5
			p.PZeroGP = 0
			p.PGarbage, p.PDup = 0.01, 0.03
			p.TxMax = 7
			for _, k := range []string{"sellpool", "buypool", "sellallpool", "addorder", "remorder", "sell", "buy", "sellall", "addliq", "remliq"} {
				p.W[k] = 10
			}
			p.W["dustorder"], p.W["remdust"], p.W["fillorder"] = 10, 8, 6
			sc := baseScenario("C06", r, seed, chain, tier, p, func(g *GenCfg, n *NodeCfg) {
				g.NPool = 2 + r.Intn(4)
				g.NCoin = 1 + r.Intn(3)
				if r.Intn(4) == 0 {
					g.PriceCoin = true
				}
				if r.Intn(3) == 0 {
					g.PriceSwarm = true
				}
			})
			// one run in three also judges counterfactual variants with tight limits (the limit exactly at,
			// and one unit beyond, what a trade or a liquidity removal really obtained): CheckTx and
			// DeliverTx must agree on them and neither may panic
			if r.Intn(3) == 0 {
				sc.Params = map[string]int64{"c06_tight": 1}
				if len(sc.Blocks) > 40 {
					sc.Blocks = sc.Blocks[:40]
				}
			}
			return sc
		},
		Monitors: func(sc *Scenario) []Monitor {
			if sc.Params["c06_tight"] == 1 {
				return []Monitor{&MonC06{}, &MonProbe{Oracles: []Prober{OracleC13{}, OracleC15{}}}}
			}
			return []Monitor{&MonC06{}}
		},
		Distinct: func(w *World) []string {
			for _, m := range w.Monitors {
				if c, ok := m.(*MonC06); ok {
					var out []string
					for k := range c.classes {
						out = append(out, k)
					}
					return out
				}
			}
			return nil
		},
		ExpectProbes: []string{"c06_pair_compared", "c06_custom_gas_coin", "c06_checktx_only_rejection"},
	})
}
