package chain

import (
	"os"
	"fmt"
	"math/rand"
	"strings"

	"chainsim/simdb"

	"github.com/MinterTeam/minter-go-node/coreV2/types"
)

// ComposeGenesis builds the genesis app state exactly as `minter export` does: cold export of the
// committed state plus version list, emission and price record from the app DB.
func ComposeGenesis(disk *simdb.Disk, h uint64) (types.AppState, error) {
	st, err := ColdExport(disk, h)
	if err != nil {
		return st, err
	}
	db := ColdAppDB(disk)
	for _, v := range db.GetVersions() {
		st.Versions = append(st.Versions, types.Version{Height: v.Height, Name: v.Name})
	}
	if e := db.Emission(); e != nil {
		st.Emission = e.String()
	}
	t, r0, r1, reward, off := db.GetPrice()
	if r0 != nil {
		st.PrevReward = types.RewardPrice{Time: uint64(t.UTC().UnixNano()), AmountBIP: r0.String(), AmountUSDT: r1.String(), Off: off, Reward: reward.String()}
	}
	return st, nil
}

type forkNode struct {
	t        *Twin
	from     int64
	blocks   int
	withheld bool // exported while the validators' reward was below the minted level
}

// MonC11: export -> verify -> new chain -> export again; then the fork is fed the same blocks.
type MonC11 struct {
	NopMonitor
	forks   []*forkNode
	After   int
	classes map[string]bool
}

func (m *MonC11) Genesis(w *World) {
	m.classes = map[string]bool{}
	if m.After == 0 {
		m.After = 5
	}
}

// ignoredAfterFork: fields the statement does not list and that legitimately depend on the chain's own
// history (validator bookkeeping of the running set, block-time window behind max gas).
func ignoredAfterFork(path string) bool {
	if os.Getenv("SIM_C11_ALL") != "" && path != "max_gas" && path != "slashed" && !strings.HasSuffix(path, "/accum") { // development aid: show validator-record differences too
		return false
	}
	return strings.HasPrefix(path, "val/") || path == "max_gas" || path == "slashed"
}

func exportClass(s *types.AppState) []string {
	var c []string
	add := func(ok bool, n string) {
		if ok {
			c = append(c, n)
		}
	}
	add(len(s.FrozenFunds) > 0, "frozen")
	add(len(s.Waitlist) > 0, "waitlist")
	add(len(s.UsedChecks) > 0, "used-checks")
	add(len(s.DeletedCandidates) > 0, "deleted-candidates")
	add(len(s.CommissionVotes) > 0, "commission-votes")
	add(len(s.UpdateVotes) > 0, "update-votes")
	add(len(s.HaltBlocks) > 0, "halt-votes")
	add(len(s.BlockListCandidates) > 0, "blocklist")
	for _, p := range s.Pools {
		if len(p.Orders) > 0 {
			add(true, "orders")
			break
		}
	}
	for _, f := range s.FrozenFunds {
		if f.MoveToCandidateID != 0 {
			add(true, "moving-stake")
		}
		if f.CandidateKey == nil {
			add(true, "locked-funds")
		}
	}
	for _, a := range s.Accounts {
		if a.MultisigData != nil {
			add(true, "multisig")
		}
		if a.LockStakeUntilBlock != 0 {
			add(true, "locked-stake")
		}
	}
	for _, co := range s.Coins {
		if co.Version != 0 {
			add(true, "archived-coin")
		}
	}
	for _, cd := range s.Candidates {
		if len(cd.Updates) > 0 {
			add(true, "pending-updates")
		}
	}
	return c
}

func (m *MonC11) AfterBlock(w *World, b *BlockCtx) {
	if b.Cur == nil || w.Viol != nil {
		return
	}
	// feed running forks
	keep := m.forks[:0]
	for _, f := range m.forks {
		if v := os.Getenv("SIM_C11_ALL"); v != "" && v != fmt.Sprint(f.from) {
			keep = append(keep, f)
			continue
		}
		res := f.t.Node.ExecBlock(b.Req, nil)
		if res.Err != nil {
			w.Report("C11", "round-trip", "fork-panics", fmt.Sprintf("chain forked from the export of height %d panics in block %d: %v\n%s", f.from, b.Height, res.Err, trimStack(res.Err.Stack)), b.Height)
			return
		}
		if res.Stopped != b.Res.Stopped {
			w.Report("C11", "round-trip", "fork-stop", fmt.Sprintf("fork of %d: stopped %v, original %v at %d", f.from, res.Stopped, b.Res.Stopped, b.Height), b.Height)
			return
		}
		for i := range res.Deliver {
			if i < len(b.Res.Deliver) && res.Deliver[i].Code != b.Res.Deliver[i].Code {
				w.Report("C11", "round-trip", "behaviour:"+b.Metas[i].Kind, fmt.Sprintf("block %d, %d block(s) after the export of height %d: transaction %d (%s) answers code %d (%q) on the original chain and %d (%q) on the chain started from the exported genesis", b.Height, f.blocks+1, f.from, i, b.Metas[i].Kind, b.Res.Deliver[i].Code, b.Res.Deliver[i].Log, res.Deliver[i].Code, res.Deliver[i].Log), b.Height)
				return
			}
		}
		ex, err := ColdExport(f.t.Disk, uint64(b.Height))
		if err != nil {
			w.InfraErr = fmt.Errorf("fork export: %v", err)
			return
		}
		var diffs []Delta
		for _, d := range DiffFlat(Flatten(&b.Cur.Raw), Flatten(&ex)) {
			if !ignoredAfterFork(d.Path) {
				diffs = append(diffs, d)
			}
		}
		if len(diffs) > 0 {
			// two explained ways in which a fork may leave the original, alone or together:
			// (a) a chain started from a genesis is in its start-up grace period for 120 blocks: absent
			//     validators are switched off but not jailed (not transaction behaviour);
			// (b) listed known finding: only the validators' share of a withheld block reward is exported,
			//     the fork mints less into the zero address
			var rest, wh []Delta
			grace := false
			for _, d := range diffs {
				switch {
				case f.blocks <= 120 && strings.HasSuffix(d.Path, "/jailed"):
					grace = true
				case f.withheld && d.Path == "bal/"+(types.Address{}).String()+"/0":
					wh = append(wh, d)
				default:
					rest = append(rest, d)
				}
			}
			if len(rest) == 0 {
				if len(wh) > 0 {
					if !w.ReportKnownable("C11", "round-trip", "withheld-reward-level-not-exported", fmt.Sprintf("block %d after the export of height %d: the genesis format carries only the validators' share of the block reward; a chain exported while part of the minted reward is withheld (after a price drop) mints only that share: zero-address balance %s", b.Height, f.from, fmtDeltas(wh, 2)), b.Height) {
						return
					}
				}
				if grace {
					w.Probe("c11_fork_left_at_grace_period_jail")
				}
				f.t.Node.Release()
				continue // this fork has diverged in an explained way: stop following it
			}
		}
		if len(diffs) > 0 {
			w.Report("C11", "round-trip", "state-after-fork:"+pathSeg(diffs[0].Path, 0), fmt.Sprintf("block %d, %d block(s) after the export of height %d: the chain started from the exported genesis differs from the original (original -> fork): %s", b.Height, f.blocks+1, f.from, fmtDeltas(diffs, 8)), b.Height)
			return
		}
		f.blocks++
		w.Probe("c11_fork_block_compared")
		if f.blocks < m.After {
			keep = append(keep, f)
		} else {
			f.t.Node.Release()
		}
	}
	m.forks = keep
	if !b.Op.Fork || b.Res.Stopped {
		return
	}
	// ---- export -> verify -> import -> export ----
	h := uint64(b.Height)
	g, err := ComposeGenesis(w.Disk, h)
	if err != nil {
		w.InfraErr = err
		return
	}
	for _, c := range exportClass(&g) {
		m.classes[c] = true
	}
	if err := g.Verify(); err != nil {
		w.Report("C11", "round-trip", "verify:"+strings.Join(strings.Fields(err.Error())[:2], "-"), fmt.Sprintf("height %d: the exported state does not pass genesis validation: %v", b.Height, err), b.Height)
		return
	}
	w.Probe("c11_export_verified")
	t := &Twin{Disk: simdb.NewDisk(), Cfg: w.Sc.Node}
	n, cerr := OpenNode(t.Disk, t.Cfg)
	if cerr != nil {
		w.InfraErr = fmt.Errorf("fork node: %v", cerr)
		return
	}
	t.Node = n
	if _, cerr := n.InitChain(MarshalGenesis(g), int64(h)+1, InitialValidators(&g), b.Req.Time); cerr != nil {
		w.Report("C11", "round-trip", "import-panics@"+cerr.Site, fmt.Sprintf("height %d: a node cannot start from the exported genesis: %v\n%s", b.Height, cerr, trimStack(cerr.Stack)), b.Height)
		return
	}
	ex, err := ColdExport(t.Disk, h)
	if err != nil {
		w.Report("C11", "round-trip", "reexport", fmt.Sprintf("height %d: cannot export the imported state: %v", b.Height, err), b.Height)
		return
	}
	ds := DiffFlat(Flatten(&b.Cur.Raw), Flatten(&ex))
	// Importing a genesis recalculates stakes (bip values of custom-coin stakes, totals, merge of pending
	// updates, kicks) and re-elects validators at once. At a height where the exporting chain has just
	// done the same (a payout block) nothing may differ; elsewhere differences confined to those fields
	// are the recorded finding and the fork is not followed.
	if len(ds) > 0 && uint64(b.Height)%w.Sc.Node.Period != 0 {
		only := true
		for _, d := range ds {
			switch pathSeg(d.Path, 0) {
			case "update", "stake", "stakebip", "waitlist":
			case "cand":
				if pathSeg(d.Path, 2) != "total" {
					only = false
				}
			default:
				only = false
			}
		}
		if only {
			w.Probe("c11_recalculated_at_import")
			w.ReportKnownable("C11", "round-trip", "recalculation-at-import", fmt.Sprintf("height %d: importing a genesis recalculates stakes at once: pending updates are merged and bip values / totals recomputed before the period ends (original -> re-exported): %s", b.Height, fmtDeltas(ds, 6)), b.Height)
			t.Node.Release()
			return // not followed further: it has diverged in the known way
		}
	}
	if len(ds) > 0 {
		w.Report("C11", "round-trip", "export-import-export:"+pathSeg(ds[0].Path, 0), fmt.Sprintf("height %d: exporting the chain started from the export gives a different state (original -> re-exported): %s", b.Height, fmtDeltas(ds, 10)), b.Height)
		return
	}
	db := ColdAppDB(t.Disk)
	if e := db.Emission(); e == nil || e.String() != g.Emission {
		w.Report("C11", "round-trip", "emission", fmt.Sprintf("height %d: emission %s exported, %v after import", b.Height, g.Emission, e), b.Height)
		return
	}
	w.Probe("c11_round_trip_equal")
	if uint64(b.Height)%w.Sc.Node.Period != 0 {
		// even with an identical export the imported chain re-elects validators and recomputes the
		// in-memory stake totals now, the original only at the end of its period: behaviour is compared
		// for exports taken at recalculation heights only
		w.Probe("c11_fork_not_followed_mid_period")
		t.Node.Release()
		return
	}
	rw, safe := w.Node.App.CurrentState().App().Reward()
	m.forks = append(m.forks, &forkNode{t: t, from: b.Height, withheld: rw.Cmp(safe) != 0})
}

func (m *MonC11) Finish(w *World) {
	for _, f := range m.forks {
		f.t.Node.Release()
	}
}

func init() {
	register(&PropSpec{ID: "C11", Level: "exploration",
		Rule: "general histories (all transaction types, punishments, votes, checks, orders, locks, moves); at seeded heights the committed state is exported and composed into a genesis exactly as `minter export` does, AppState.Verify must accept it, a new node is started from it (first block = next height), its own export must equal the original entity by entity, and for the next blocks both chains receive identical requests and must answer every transaction with the same code and export the same accounts, coins, candidates, stakes, waitlist, frozen funds, pools, orders, checks, votes and commissions; distinct non-trivial case = distinct feature class present in an exported state (orders, waitlist, moving / locked funds, used checks, votes, archived coins, ...)",
		Make: func(r *rand.Rand, seed int64, chain int, tier string) *Scenario {
			p := GeneralProfile()
			p.W["sethalt"], p.W["voteupdate"] = 1, 1
			p.W["redeem"], p.W["lock"], p.W["move"], p.W["addorder"], p.W["votecomm"], p.W["recreatetoken"], p.W["createmultisig"] = 8, 8, 8, 10, 6, 6, 5
			sc := baseScenario("C11", r, seed, chain, tier, p, func(g *GenCfg, n *NodeCfg) {
				g.Frozen = 2 + r.Intn(6)
				g.Waitlist = r.Intn(4)
			})
			for i := range sc.Blocks {
				if i > 2 && r.Intn(9) == 0 {
					sc.Blocks[i].Fork = true
				}
				// payout blocks merge every pending update: clean states for the behavioural half
				if i > 2 && uint64(sc.InitialH+int64(i))%sc.Node.Period == 0 && r.Intn(2) == 0 {
					sc.Blocks[i].Fork = true
				}
				for j := range sc.Blocks[i].Ops {
					if sc.Blocks[i].Ops[j].K == "voteupdate" {
						sc.Blocks[i].Ops[j].S = []string{"v310", "v320", "v330"}[r.Intn(3)]
					}
				}
			}
			if len(sc.Blocks) > 8 {
				sc.Blocks[len(sc.Blocks)-7].Fork = true
			}
			return sc
		},
		Monitors: func(sc *Scenario) []Monitor { return []Monitor{&MonC11{}} },
		Distinct: func(w *World) []string {
			for _, m := range w.Monitors {
				if c, ok := m.(*MonC11); ok {
					var out []string
					for k := range c.classes {
						out = append(out, k)
					}
					return out
				}
			}
			return nil
		},
		ExpectProbes: []string{"c11_export_verified", "c11_round_trip_equal", "c11_fork_block_compared"},
	})
}
