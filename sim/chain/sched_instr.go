//go:build instr

package chain

import (
	"time"

	"github.com/MinterTeam/minter-go-node/simrt"
)

type schedResult struct {
	Panics   []interface{}
	Stacks   []string
	WaitAt   []string
	Done     []bool
	Deadlock bool
	Cycle    []string
	Stalled  bool
	Switches int
	Points   int
	Blocked  int
	Trace    string
}

// runInterleaved executes the tasks under simrt's cooperative scheduler: one task at a time, a
// switch is possible at every instrumented lock point, the next task is choose(n).
func runInterleaved(choose func(int) int, fs []func(), stall time.Duration) schedResult {
	r := simrt.Run(choose, fs, stall)
	res := schedResult{Cycle: r.Cycle, Deadlock: r.Deadlock, Stalled: r.Stalled, Switches: r.Switches, Points: r.Points, Blocked: r.Blocked, Trace: string(r.Trace)}
	for _, t := range r.Tasks {
		res.Panics = append(res.Panics, t.Panic)
		res.Stacks = append(res.Stacks, t.Stack)
		res.WaitAt = append(res.WaitAt, t.WaitAt)
		res.Done = append(res.Done, t.Done)
	}
	return res
}
