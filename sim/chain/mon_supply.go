package chain

import (
	"fmt"
	"math/big"
	"strings"

	"github.com/MinterTeam/minter-go-node/coreV2/types"
	abci "github.com/tendermint/tendermint/abci/types"
)

// ---------------- C01: conservation ----------------

// MonC01 checks, on the cold export after every commit, that each custom coin's recorded volume equals
// the sum of all its holdings and that the base-coin total moves by exactly the emission increase.
type MonC01 struct {
	NopMonitor
	prevBase *big.Int
}

func (m *MonC01) check(w *World, s *Snap, h int64) *Ledger {
	l := ComputeLedger(&s.Raw)
	for _, id := range s.CoinIDs {
		c := s.Coins[id]
		vol := bi(c.Volume)
		if vol == nil {
			w.Report("C01", "custom-coin-volume", "unparsable-volume", fmt.Sprintf("coin %d volume %q", id, c.Volume), h)
			return l
		}
		if l.Get(id).Cmp(vol) != 0 {
			cls := "token"
			if c.Crr != 0 {
				cls = "bancor"
			}
			diff := new(big.Int).Sub(l.Get(id), vol)
			sign := "holdings>volume"
			if diff.Sign() < 0 {
				sign = "holdings<volume"
			}
			w.Report("C01", "custom-coin-volume", cls+"/"+sign, fmt.Sprintf("height %d coin %d (%s, crr %d): recorded volume %s but holdings sum to %s (diff %s): %s",
				h, id, c.Symbol, c.Crr, vol, l.Get(id), diff, l.PartsString(id)), h)
			return l
		}
	}
	return l
}

func (m *MonC01) Genesis(w *World) {
	l := m.check(w, w.Prev, w.Sc.InitialH-1)
	m.prevBase = l.Get(0)
}

func (m *MonC01) AfterBlock(w *World, b *BlockCtx) {
	if b.Cur == nil {
		return
	}
	l := m.check(w, b.Cur, b.Height)
	if w.Viol != nil {
		return
	}
	base := l.Get(0)
	dT := new(big.Int).Sub(base, m.prevBase)
	dE := new(big.Int).Sub(b.EmCur, b.EmPrev)
	if dT.Cmp(dE) != 0 {
		diff := new(big.Int).Sub(dT, dE)
		sign := "created"
		if diff.Sign() < 0 {
			sign = "destroyed"
		}
		w.Report("C01", "base-coin-emission", sign+"/"+blockClass(w, b), fmt.Sprintf("height %d: base coin total changed by %s but emission counter by %s (unaccounted %s); parts now: %s; txs: %s",
			b.Height, dT, dE, diff, l.PartsString(0), txSummary(b)), b.Height)
		return
	}
	m.prevBase = base
	w.Probe("c01_block_checked")
	if dE.Sign() > 0 {
		w.Probe("c01_emission_positive")
	}
}

func blockClass(w *World, b *BlockCtx) string {
	p := w.Sc.Node.Period
	var cls []string
	if p > 0 && uint64(b.Height)%p == 0 {
		cls = append(cls, "payout")
	}
	if len(b.Req.Evidence) > 0 {
		cls = append(cls, "evidence")
	}
	if len(cls) == 0 {
		return "plain"
	}
	return strings.Join(cls, "+")
}

func txSummary(b *BlockCtx) string {
	s := ""
	for i, m := range b.Metas {
		code := uint32(9999)
		if i < len(b.Res.Deliver) {
			code = b.Res.Deliver[i].Code
		}
		s += fmt.Sprintf("[%s code=%d] ", m.Kind, code)
	}
	return s
}

// ---------------- C02: signs, max supply, positive reserves ----------------

type MonC02 struct {
	NopMonitor
}

func (m *MonC02) checkSnap(w *World, s *Snap, h int64) {
	l := ComputeLedger(&s.Raw)
	if len(l.Bad) > 0 {
		w.Report("C02", "non-negative", classOf(l.Bad[0]), fmt.Sprintf("height %d: %s", h, strings.Join(l.Bad, "; ")), h)
		return
	}
	for _, id := range s.CoinIDs {
		c := s.Coins[id]
		vol, mx := bi(c.Volume), bi(c.MaxSupply)
		if vol == nil || mx == nil || vol.Sign() < 0 {
			w.Report("C02", "non-negative", "coin-volume", fmt.Sprintf("height %d coin %d volume %q max %q", h, id, c.Volume, c.MaxSupply), h)
			return
		}
		if vol.Cmp(mx) > 0 {
			w.Report("C02", "max-supply", "volume>max", fmt.Sprintf("height %d coin %d (%s): volume %s exceeds max supply %s", h, id, c.Symbol, vol, mx), h)
			return
		}
		if c.Crr != 0 {
			if r := bi(c.Reserve); r == nil || r.Sign() < 0 {
				w.Report("C02", "non-negative", "bancor-reserve", fmt.Sprintf("height %d coin %d reserve %q", h, id, c.Reserve), h)
				return
			}
		}
	}
	for _, p := range s.Pools {
		r0, r1 := bi(p.Reserve0), bi(p.Reserve1)
		if r0 == nil || r1 == nil || r0.Sign() <= 0 || r1.Sign() <= 0 {
			w.Report("C02", "positive-reserves", "pool-reserve", fmt.Sprintf("height %d pool %d (%d,%d) reserves %s/%s", h, p.ID, p.Coin0, p.Coin1, p.Reserve0, p.Reserve1), h)
			return
		}
		for _, o := range p.Orders {
			if v0, v1 := bi(o.Volume0), bi(o.Volume1); v0 == nil || v1 == nil || v0.Sign() < 0 || v1.Sign() < 0 {
				w.Report("C02", "non-negative", "order-volume", fmt.Sprintf("height %d order %d volumes %s/%s", h, o.ID, o.Volume0, o.Volume1), h)
				return
			}
		}
	}
	for _, c := range s.Cands {
		if t := bi(c.TotalBipStake); t == nil || t.Sign() < 0 {
			w.Report("C02", "non-negative", "candidate-total", fmt.Sprintf("height %d candidate %d total %q", h, c.ID, c.TotalBipStake), h)
			return
		}
		for _, st := range c.Stakes {
			if bv := bi(st.BipValue); bv == nil || bv.Sign() < 0 {
				w.Report("C02", "non-negative", "stake-bip-value", fmt.Sprintf("height %d candidate %d stake bip value %q", h, c.ID, st.BipValue), h)
				return
			}
		}
	}
	w.Probe("c02_snap_checked")
}

func classOf(s string) string {
	f := strings.Fields(s)
	if len(f) >= 2 {
		return f[0] + "-" + f[1]
	}
	return "field"
}

func (m *MonC02) Genesis(w *World) { m.checkSnap(w, w.Prev, w.Sc.InitialH-1) }

// AfterTx reads, through the live read interface the API uses, the balances of every account the
// transaction could have touched: a negative balance would be silently dropped from an export.
func (m *MonC02) AfterTx(w *World, b *BlockCtx, tm *TxMeta, r abci.ResponseDeliverTx) {
	if !w.HotChecks || tm.Garbage {
		return
	}
	addrs := []types.Address{tm.Sender}
	if tm.Issuer != nil {
		addrs = append(addrs, *tm.Issuer)
	}
	cs := w.Node.App.CurrentState()
	for _, a := range addrs {
		for _, bal := range cs.Accounts().GetBalances(a) {
			if bal.Value.Sign() < 0 {
				w.Report("C02", "non-negative", "hot-balance", fmt.Sprintf("height %d after %s (code %d): live balance of %s coin %d is %s", b.Height, tm.Kind, r.Code, a.String(), bal.Coin.ID, bal.Value), b.Height)
				return
			}
		}
	}
	w.Probe("c02_hot_balance_read")
}

func (m *MonC02) AfterBlock(w *World, b *BlockCtx) {
	if b.Cur != nil {
		m.checkSnap(w, b.Cur, b.Height)
	}
}
