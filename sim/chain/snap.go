package chain

import (
	"fmt"
	"math/big"
	"sort"

	"github.com/MinterTeam/minter-go-node/coreV2/types"
)

// Snap is an indexed view of one exported state (the committed state at Height).
type Snap struct {
	Height uint64
	Raw    types.AppState

	Bal      map[types.Address]map[uint64]*big.Int
	Nonce    map[types.Address]uint64
	Coins    map[uint64]*types.Coin
	CoinIDs  []uint64 // sorted, without base coin
	Pools    []*types.Pool
	Cands    []*types.Candidate
	CandByPK map[types.Pubkey]*types.Candidate
	Vals     map[types.Pubkey]*types.Validator
	Multisig map[types.Address]*types.Multisig
	Accounts []types.Address // sorted as exported
}

func bi(s string) *big.Int {
	if s == "" {
		return big.NewInt(0)
	}
	v, ok := new(big.Int).SetString(s, 10)
	if !ok {
		return nil
	}
	return v
}

// NewSnap indexes an export.
func NewSnap(h uint64, st types.AppState) *Snap {
	s := &Snap{Height: h, Raw: st,
		Bal: map[types.Address]map[uint64]*big.Int{}, Nonce: map[types.Address]uint64{},
		Coins: map[uint64]*types.Coin{}, CandByPK: map[types.Pubkey]*types.Candidate{},
		Vals: map[types.Pubkey]*types.Validator{}, Multisig: map[types.Address]*types.Multisig{}}
	for i := range st.Accounts {
		a := &st.Accounts[i]
		m := map[uint64]*big.Int{}
		for _, b := range a.Balance {
			m[b.Coin] = bi(b.Value)
		}
		s.Bal[a.Address] = m
		s.Nonce[a.Address] = a.Nonce
		if a.MultisigData != nil {
			s.Multisig[a.Address] = a.MultisigData
		}
		s.Accounts = append(s.Accounts, a.Address)
	}
	for i := range st.Coins {
		c := &st.Coins[i]
		s.Coins[c.ID] = c
		s.CoinIDs = append(s.CoinIDs, c.ID)
	}
	sort.Slice(s.CoinIDs, func(i, j int) bool { return s.CoinIDs[i] < s.CoinIDs[j] })
	for i := range st.Pools {
		s.Pools = append(s.Pools, &st.Pools[i])
	}
	for i := range st.Candidates {
		c := &st.Candidates[i]
		s.Cands = append(s.Cands, c)
		s.CandByPK[c.PubKey] = c
	}
	for i := range st.Validators {
		v := &st.Validators[i]
		s.Vals[v.PubKey] = v
	}
	return s
}

// Balance returns the exported balance (0 when absent).
func (s *Snap) Balance(a types.Address, coin uint64) *big.Int {
	if m, ok := s.Bal[a]; ok {
		if v, ok := m[coin]; ok && v != nil {
			return v
		}
	}
	return big.NewInt(0)
}

// Ledger is the per-coin sum of all holdings of an export, split by holding class.
type Ledger struct {
	// per coin id
	Total map[uint64]*big.Int
	Parts map[uint64]map[string]*big.Int
	Bad   []string // unparsable or negative fields
}

func (l *Ledger) add(coin uint64, class, v string, where string) {
	x := bi(v)
	if x == nil {
		l.Bad = append(l.Bad, fmt.Sprintf("unparsable %s %q at %s", class, v, where))
		return
	}
	if x.Sign() < 0 {
		l.Bad = append(l.Bad, fmt.Sprintf("negative %s %s at %s", class, v, where))
	}
	if l.Total[coin] == nil {
		l.Total[coin] = new(big.Int)
		l.Parts[coin] = map[string]*big.Int{}
	}
	l.Total[coin].Add(l.Total[coin], x)
	p := l.Parts[coin][class]
	if p == nil {
		p = new(big.Int)
		l.Parts[coin][class] = p
	}
	p.Add(p, x)
}

// ComputeLedger sums every holding of every coin in the export, independently of the node's own
// Checker. The base coin total additionally contains bancor reserves, validators' accumulated
// rewards and the total-slashed pool.
func ComputeLedger(st *types.AppState) *Ledger {
	l := &Ledger{Total: map[uint64]*big.Int{}, Parts: map[uint64]map[string]*big.Int{}}
	for _, a := range st.Accounts {
		for _, b := range a.Balance {
			l.add(b.Coin, "balance", b.Value, a.Address.String())
		}
	}
	for _, c := range st.Candidates {
		for _, s := range c.Stakes {
			l.add(s.Coin, "stake", s.Value, fmt.Sprintf("cand %d stake %s", c.ID, s.Owner.String()))
		}
		for _, s := range c.Updates {
			l.add(s.Coin, "update", s.Value, fmt.Sprintf("cand %d update %s", c.ID, s.Owner.String()))
		}
	}
	for _, w := range st.Waitlist {
		l.add(w.Coin, "waitlist", w.Value, fmt.Sprintf("waitlist cand %d %s", w.CandidateID, w.Owner.String()))
	}
	for _, f := range st.FrozenFunds {
		l.add(f.Coin, "frozen", f.Value, fmt.Sprintf("frozen h=%d %s", f.Height, f.Address.String()))
	}
	for _, p := range st.Pools {
		l.add(p.Coin0, "pool", p.Reserve0, fmt.Sprintf("pool %d r0", p.ID))
		l.add(p.Coin1, "pool", p.Reserve1, fmt.Sprintf("pool %d r1", p.ID))
		for _, o := range p.Orders {
			// escrow side as AppState.Verify defines it
			if !o.IsSale {
				l.add(p.Coin0, "order", o.Volume0, fmt.Sprintf("order %d", o.ID))
			} else {
				l.add(p.Coin1, "order", o.Volume1, fmt.Sprintf("order %d", o.ID))
			}
		}
	}
	for _, c := range st.Coins {
		if c.Crr != 0 {
			l.add(0, "reserve", c.Reserve, fmt.Sprintf("coin %d reserve", c.ID))
		}
	}
	for _, v := range st.Validators {
		l.add(0, "accum", v.AccumReward, "validator "+v.PubKey.String())
	}
	l.add(0, "slashed", st.TotalSlashed, "total_slashed")
	return l
}

func (l *Ledger) Get(coin uint64) *big.Int {
	if v := l.Total[coin]; v != nil {
		return v
	}
	return big.NewInt(0)
}

func (l *Ledger) PartsString(coin uint64) string {
	keys := []string{}
	for k := range l.Parts[coin] {
		keys = append(keys, k)
	}
	sort.Strings(keys)
	s := ""
	for _, k := range keys {
		s += fmt.Sprintf("%s=%s ", k, l.Parts[coin][k])
	}
	return s
}

func coinID(id uint64) types.CoinID { return types.CoinID(id) }
