package chain

import (
	"github.com/MinterTeam/minter-go-node/coreV2/transaction"
	"encoding/hex"
	"encoding/json"
	"fmt"
	"math/big"
	"time"

	"chainsim/simdb"

	"github.com/MinterTeam/minter-go-node/coreV2/types"
	amino "github.com/tendermint/go-amino"
	abci "github.com/tendermint/tendermint/abci/types"
)

// Scenario is a complete, self-contained, replayable run description.
type Scenario struct {
	Format   int             `json:"format"`
	Prop     string          `json:"property"`
	Seed     int64           `json:"seed"`
	ChainID  int             `json:"chain_id"`
	Node     NodeCfg         `json:"node"`
	Gen      GenCfg          `json:"gen"`
	InitialH int64           `json:"initial_height"`
	Time0    int64           `json:"genesis_unix"`
	Genesis  json.RawMessage `json:"genesis"`
	Blocks   []BlockOp       `json:"blocks"`
	Params   map[string]int64 `json:"params,omitempty"`
	PreUsed  []PreCheck       `json:"pre_used_checks,omitempty"` // checks the genesis lists as used (their hashes are in Genesis)
	Expect   string          `json:"expect,omitempty"` // violation signature expected on replay
}

// Violation is one property violation with a class signature used for shrinking and known findings.
type Violation struct {
	Prop   string `json:"property"`
	Oracle string `json:"oracle"`
	Key    string `json:"key"` // class-specific signature
	Detail string `json:"detail"`
	Height int64  `json:"height"`
}

func (v *Violation) Sig() string { return v.Prop + "/" + v.Oracle + "/" + v.Key }

// BlockCtx is everything monitors can see about one executed block.
type BlockCtx struct {
	Height  int64
	Op      *BlockOp
	Req     BlockReq
	Metas   []*TxMeta
	Res     BlockRes
	Prev    *Snap // committed state before the block
	Cur     *Snap // committed state after the block (nil when the block did not commit)
	EmPrev  *big.Int
	EmCur   *big.Int
	Voters  int
	Updates []abci.ValidatorUpdate
	flatPrev, flatCur map[string]string // lazily flattened exports (flatDelta)
}

// Monitor observes a run and reports violations through World.Report.
type Monitor interface {
	Genesis(w *World)
	BeforeBlock(w *World, b *BlockCtx)
	BeforeTx(w *World, b *BlockCtx, m *TxMeta)
	AfterTx(w *World, b *BlockCtx, m *TxMeta, r abci.ResponseDeliverTx)
	AfterBlock(w *World, b *BlockCtx)
	Finish(w *World)
}

// NopMonitor is embedded by monitors that only need some callbacks.
type NopMonitor struct{}

func (NopMonitor) Genesis(*World)                                               {}
func (NopMonitor) BeforeBlock(*World, *BlockCtx)                                {}
func (NopMonitor) BeforeTx(*World, *BlockCtx, *TxMeta)                          {}
func (NopMonitor) AfterTx(*World, *BlockCtx, *TxMeta, abci.ResponseDeliverTx) {}
func (NopMonitor) AfterBlock(*World, *BlockCtx)                                 {}
func (NopMonitor) Finish(*World)                                                {}

// Stats are per-run coverage counters (measured, never constants).
type Stats struct {
	Blocks     int            `json:"blocks"`
	Txs        int            `json:"txs"`
	Accepted   int            `json:"accepted"`
	ByKindCode map[string]int `json:"by_kind_code"` // "kind/code" -> count
	Faults     map[string]int `json:"faults"`
	Probes     map[string]int `json:"probes"`
	SimSeconds int64          `json:"sim_seconds"`
	Hashes     int            `json:"hashes"`
	Truncated  string         `json:"truncated,omitempty"`
	Known      map[string]int `json:"known,omitempty"` // listed known findings re-observed without ending the run
}

func newStats() *Stats {
	return &Stats{ByKindCode: map[string]int{}, Faults: map[string]int{}, Probes: map[string]int{}}
}

// World runs one scenario on the main node and feeds the monitors.
type World struct {
	Sc       *Scenario
	Disk     *simdb.Disk
	Node     *Node
	TM       *TM
	Prev     *Snap
	Log      []*TxMeta
	Issued   []*IssuedCheck
	Monitors []Monitor
	Viol     *Violation
	Stats    *Stats
	GenesisState types.AppState
	Chain    types.ChainID
	InfraErr error
	lastHash []byte
	prevCommitted []byte
	LastCommitted int64 // height of the last block the main node committed
	KeepDisks bool
	DupKinds map[string]bool
	AfterCommit func() // called right after every Commit of the main node
	Cleanup  []func()  // run by Close (temporary directories etc.)
	MidBlock func(phase string, b *BlockCtx) // called between the ABCI calls of the main node's block
	DiskAt   map[int64]*simdb.Disk // copy of the main node's disk after each commit (KeepDisks)
	ReqLog   []BlockReq // executed block requests (for twins)
	ResLog   []BlockRes
	KeepLogs bool
	HotChecks bool // read balances through the live check state after each tx (C02)
}

// Report records the first violation; the run stops after the current callback.
func (w *World) Report(prop, oracle, key, detail string, h int64) {
	if w.Viol == nil {
		w.Viol = &Violation{Prop: prop, Oracle: oracle, Key: key, Detail: detail, Height: h}
	}
}

// IsKnown is set by the driver: reports whether a violation signature is a listed known finding.
var IsKnown func(sig string) bool

// ReportKnownable reports a violation whose consequences the monitor can step over: when its signature
// is a listed known finding it is only counted (the run goes on and explores the rest), otherwise it is
// an ordinary violation. It returns true when the run may continue.
func (w *World) ReportKnownable(prop, oracle, key, detail string, h int64) bool {
	sig := prop + "/" + oracle + "/" + key
	if IsKnown != nil && IsKnown(sig) {
		if w.Stats.Known == nil {
			w.Stats.Known = map[string]int{}
		}
		w.Stats.Known[sig]++
		return true
	}
	w.Report(prop, oracle, key, detail, h)
	return false
}

// Probe counts a "this condition was reached" event.
func (w *World) Probe(name string) { w.Stats.Probes[name]++ }

// Fault counts an injected fault that actually fired.
func (w *World) Fault(name string) { w.Stats.Faults[name]++ }

// MarshalGenesis encodes an AppState the way genesis files carry it.
func MarshalGenesis(st types.AppState) []byte {
	b, err := amino.MarshalJSON(st)
	if err != nil {
		panic(err)
	}
	return b
}

// UnmarshalGenesis decodes a genesis app state.
func UnmarshalGenesis(b []byte) (st types.AppState, err error) {
	err = amino.UnmarshalJSON(b, &st)
	return
}

// InitialValidators builds the RequestInitChain validator list from a genesis state.
func InitialValidators(st *types.AppState) []abci.ValidatorUpdate {
	var u []abci.ValidatorUpdate
	for _, v := range st.Validators {
		u = append(u, abci.Ed25519ValidatorUpdate(v.PubKey.Bytes(), 1))
	}
	return u
}

// NewWorld creates the node over an empty disk and delivers the genesis.
func NewWorld(sc *Scenario, mons ...Monitor) (*World, *CallErr) {
	w := &World{Sc: sc, Monitors: mons, Stats: newStats(), Chain: types.ChainID(sc.ChainID)}
	types.CurrentChainID = w.Chain
	st, err := UnmarshalGenesis(sc.Genesis)
	if err != nil {
		w.InfraErr = fmt.Errorf("genesis decode: %v", err)
		return w, nil
	}
	w.GenesisState = st
	for _, pc := range sc.PreUsed {
		ic, _ := pc.Build(w.Chain)
		w.Issued = append(w.Issued, ic)
	}
	w.Disk = simdb.NewDisk()
	n, cerr := OpenNode(w.Disk, sc.Node)
	if cerr != nil {
		return w, cerr
	}
	w.Node = n
	t0 := time.Unix(sc.Time0, 0).UTC()
	vals := InitialValidators(&st)
	resp, cerr := n.InitChain(sc.Genesis, sc.InitialH, vals, t0)
	if cerr != nil {
		return w, cerr
	}
	tm, err := NewTM(sc.InitialH, t0, vals, resp)
	if err != nil {
		w.InfraErr = err
		return w, nil
	}
	w.TM = tm
	ex, err := ColdExport(w.Disk, uint64(sc.InitialH-1))
	if err != nil {
		w.InfraErr = fmt.Errorf("export after genesis: %v", err)
		return w, nil
	}
	w.Prev = NewSnap(uint64(sc.InitialH-1), ex)
	for _, m := range mons {
		m.Genesis(w)
	}
	if w.KeepDisks {
		w.DiskAt = map[int64]*simdb.Disk{sc.InitialH - 1: w.Disk.Clone()}
	}
	return w, nil
}

// Emission reads the node's emission counter the way the API does.
func (w *World) Emission() *big.Int {
	return new(big.Int).Set(w.Node.App.GetEmission())
}

// Step executes one block of the scenario. It returns false when the run must stop.
func (w *World) Step(bo *BlockOp) bool {
	if w.Viol != nil || w.InfraErr != nil || w.Node == nil || w.Node.Dead || w.Node.Stopped {
		return false
	}
	if bo.Restart && w.Sc.Params["main_restart"] == 1 && w.Prev != nil && int64(w.Prev.Height) >= w.Sc.InitialH {
		// the node under test itself is stopped cleanly and started again over its disk (properties whose
		// oracle is a model of the history, e.g. nonces: the model does not restart)
		w.Node.Close()
		w.Disk = w.Disk.Reopen()
		n, cerr := OpenNode(w.Disk, w.Sc.Node)
		if cerr != nil {
			w.Report("C07", "no-panic", "restart:"+cerr.Call+"@"+cerr.Site, cerr.Error(), int64(w.Prev.Height))
			return false
		}
		w.Node = n
		w.Fault("restart")
		w.Probe("main_node_restarted")
	}
	w.TM.Advance(bo.Dt)
	w.Stats.SimSeconds += bo.Dt
	h := w.TM.Next
	b := &BlockCtx{Height: h, Op: bo, Prev: w.Prev, Voters: len(w.TM.Voters())}
	b.Req = BlockReq{Height: h, Time: w.TM.Now, Votes: w.TM.Votes(bo), Evidence: w.TM.Evidence(bo, w.Prev)}
	if bo.TimeBack > 0 {
		b.Req.Time = w.TM.Now.Add(-time.Duration(bo.TimeBack) * time.Second)
		w.Fault("non_monotone_time")
	}
	if bo.DupVote || len(bo.ExtraVotes) > 0 {
		w.Fault("hostile_vote_set")
	}
	if len(b.Req.Evidence) > 0 {
		w.Fault("evidence")
	}
	for _, v := range b.Req.Votes {
		if !v.SignedLastBlock {
			w.Fault("absent_vote")
		}
	}
	if bo.Dt > 600 || bo.Dt == 0 {
		w.Fault("clock_jump")
	}
	b.EmPrev = w.Emission()
	for _, m := range w.Monitors {
		m.BeforeBlock(w, b)
		if w.Viol != nil {
			return false
		}
	}
	fail := func(cerr *CallErr) bool {
		b.Res.Err = cerr
		w.Report("C07", "no-panic", cerr.Call+"@"+cerr.Site, cerr.Error()+"\n"+trimStack(cerr.Stack), h)
		return false
	}
	stopped, cerr := w.Node.Begin(b.Req)
	if cerr != nil {
		b.Res.Phase = "BeginBlock"
		return fail(cerr)
	}
	if stopped {
		b.Res.Stopped = true
		w.Stats.Truncated = "node stopped in BeginBlock"
		for _, m := range w.Monitors {
			m.AfterBlock(w, b)
		}
		return false
	}
	if w.MidBlock != nil {
		w.MidBlock("after-begin", b)
		if w.Viol != nil {
			return false
		}
	}
	view := &View{S: w.Prev, Height: uint64(h), NAcct: w.Sc.Gen.NAcct, Chain: w.Chain, NonceAdd: map[types.Address]uint64{}, Log: w.Log, Issued: w.Issued, DupAcceptedOnly: w.Sc.Params["dup_accepted_only"] == 1}
	for _, op := range bo.Ops {
		m := view.Resolve(op)
		w.Issued = view.Issued
		b.Metas = append(b.Metas, m)
		b.Req.Txs = append(b.Req.Txs, m.Bytes)
		for _, mon := range w.Monitors {
			mon.BeforeTx(w, b, m)
		}
		if w.MidBlock != nil {
			w.MidBlock("between-txs", b)
			if w.Viol != nil {
				return false
			}
		}
		r, cerr := w.Node.Deliver(m.Bytes)
		if cerr != nil {
			b.Res.Phase = "DeliverTx"
			w.Report("C07", "no-panic", cerr.Call+"@"+cerr.Site, fmt.Sprintf("%v\nop=%s\n%s", cerr.Error(), opJSON(op), trimStack(cerr.Stack)), h)
			b.Res.Err = cerr
			return false
		}
		b.Res.Deliver = append(b.Res.Deliver, r)
		w.Stats.Txs++
		w.Stats.ByKindCode[fmt.Sprintf("%s/%d", m.Kind, r.Code)]++
		if r.Code == 0 {
			w.Stats.Accepted++
			view.NonceAdd[m.Sender]++
			if d, ok := m.Data.(transaction.EditMultisigData); ok && !m.Garbage && !m.Malleated {
				if view.MsEdit == nil {
					view.MsEdit = map[types.Address]*types.Multisig{}
				}
				view.MsEdit[m.Sender] = &types.Multisig{Threshold: uint64(d.Threshold), Weights: toU64(d.Weights), Addresses: d.Addresses}
			}
		}
		m.Code = r.Code
		if m.Dup {
			if w.DupKinds == nil {
				w.DupKinds = map[string]bool{}
			}
			w.DupKinds[fmt.Sprintf("dup:%s/first%d/now%d", m.OrigKind, m.FirstCode, r.Code)] = true
		}
		w.countTxFaults(m)
		w.Log = append(w.Log, m)
		view.Log = w.Log
		for _, mon := range w.Monitors {
			mon.AfterTx(w, b, m, r)
		}
		if w.Viol != nil {
			return false
		}
	}
	end, stopped, cerr := w.Node.End(h)
	if cerr != nil {
		b.Res.Phase = "EndBlock"
		return fail(cerr)
	}
	b.Res.End = end
	b.Updates = end.ValidatorUpdates
	if stopped {
		b.Res.Stopped = true
		w.Stats.Truncated = "node stopped in EndBlock"
		return false
	}
	if w.MidBlock != nil {
		w.MidBlock("after-end", b)
		if w.Viol != nil {
			return false
		}
	}
	hash, cerr := w.Node.Commit()
	if cerr != nil {
		b.Res.Phase = "Commit"
		return fail(cerr)
	}
	if w.AfterCommit != nil {
		w.AfterCommit()
	}
	b.Res.Hash = hash
	b.Res.Phase = "done"
	if string(hash) != string(w.lastHash) {
		w.Stats.Hashes++
	}
	w.prevCommitted = w.lastHash
	w.lastHash = hash
	w.LastCommitted = h
	w.Stats.Blocks++
	if err := w.TM.EndBlock(end.ValidatorUpdates); err != nil {
		w.Report("C17", "tendermint-accepts-updates", "rejected-update", fmt.Sprintf("validator updates at height %d would be refused by Tendermint: %v; updates=%v", h, err, fmtUpdates(end.ValidatorUpdates)), h)
	}
	if w.TM.Empty {
		w.Stats.Truncated = "validator set became empty"
		w.Probe("validator_set_empty")
		return false
	}
	ex, err := ColdExport(w.Disk, uint64(h))
	if err != nil {
		w.InfraErr = fmt.Errorf("cold export at %d: %v", h, err)
		return false
	}
	b.Cur = NewSnap(uint64(h), ex)
	b.EmCur = w.Emission()
	if w.KeepDisks {
		w.DiskAt[h] = w.Disk.Clone()
	}
	if w.KeepLogs {
		w.ReqLog = append(w.ReqLog, b.Req)
		w.ResLog = append(w.ResLog, b.Res)
	}
	for _, m := range w.Monitors {
		m.AfterBlock(w, b)
		if w.Viol != nil {
			return false
		}
	}
	w.Prev = b.Cur
	return true
}

func (w *World) countTxFaults(m *TxMeta) {
	switch {
	case m.Dup:
		w.Fault("redeliver")
	case m.Malleated:
		w.Fault("malleate")
	case m.Garbage:
		w.Fault("garbage_bytes")
	}
	if m.Op.NM != 0 {
		w.Fault("bad_nonce")
	}
	if m.Op.SM != 0 {
		w.Fault("bad_signature")
	}
	if m.Op.MS != nil {
		w.Fault("multisig_sender")
	}
	if m.Op.ZGP {
		w.Fault("zero_gas_price")
	}
	if m.Op.CH != 0 {
		w.Fault("wrong_chain")
	}
}

// Run executes all blocks and the Finish callbacks.
func (w *World) Run() {
	for i := range w.Sc.Blocks {
		if !w.Step(&w.Sc.Blocks[i]) {
			break
		}
	}
	if w.Viol == nil && w.InfraErr == nil {
		for _, m := range w.Monitors {
			m.Finish(w)
		}
	}
}

// Close releases node bookkeeping.
func (w *World) Close() {
	if w.Node != nil {
		w.Node.Release()
	}
	for _, f := range w.Cleanup {
		f()
	}
	w.Cleanup = nil
}

func trimStack(s string) string {
	if len(s) > 2500 {
		return s[:2500] + "\n..."
	}
	return s
}

func opJSON(op Op) string {
	b, _ := json.Marshal(op)
	if len(b) > 600 {
		return string(b[:600]) + "..."
	}
	return string(b)
}

func fmtUpdates(u []abci.ValidatorUpdate) string {
	s := ""
	for _, x := range u {
		s += fmt.Sprintf("%s:%d ", hex.EncodeToString(x.PubKey.GetEd25519())[:8], x.Power)
	}
	return s
}

func toU64(a []uint32) []uint64 {
	out := make([]uint64, len(a))
	for i, x := range a {
		out[i] = uint64(x)
	}
	return out
}
