package chain

import (
	"os"
	"encoding/json"
	"time"
)

// RunScenario executes a scenario under the monitors of its property and returns the world.
func RunScenario(sc *Scenario, spec *PropSpec) *World {
	mons := spec.Monitors(sc)
	if os.Getenv("SIM_TRACE") != "" {
		mons = append([]Monitor{TraceMon{}}, mons...)
	}
	w, cerr := NewWorld(sc, mons...)
	if cerr != nil {
		w.Report("C07", "no-panic", cerr.Call+"@"+cerr.Site, cerr.Error()+"\n"+trimStack(cerr.Stack), sc.InitialH-1)
		return w
	}
	if w.InfraErr != nil {
		return w
	}
	if spec.Setup != nil {
		spec.Setup(w)
	}
	w.Run()
	return w
}

func cloneScenario(sc *Scenario) *Scenario {
	b, _ := json.Marshal(sc)
	var c Scenario
	_ = json.Unmarshal(b, &c)
	return &c
}

// Shrink minimises a failing scenario by delta debugging while the violation signature persists.
// Runner executes a candidate and returns its violation signature ("" when it passes).
func Shrink(sc *Scenario, sig string, runner func(*Scenario) string, budget time.Duration) (*Scenario, int) {
	deadline := time.Now().Add(budget)
	best := cloneScenario(sc)
	tries := 0
	try := func(c *Scenario) bool {
		if time.Now().After(deadline) {
			return false
		}
		tries++
		if runner(c) == sig {
			best = c
			return true
		}
		return false
	}
	// 1. truncate trailing blocks (binary search on length)
	lo, hi := 1, len(best.Blocks)
	for lo < hi && time.Now().Before(deadline) {
		mid := (lo + hi) / 2
		c := cloneScenario(best)
		c.Blocks = c.Blocks[:mid]
		if try(c) {
			hi = mid
		} else {
			lo = mid + 1
		}
	}
	if hi < len(best.Blocks) {
		c := cloneScenario(best)
		c.Blocks = c.Blocks[:hi]
		try(c)
	}
	// 2. empty whole blocks' op lists in chunks (keep block count so heights stay aligned)
	for chunk := len(best.Blocks) / 2; chunk >= 1; chunk /= 2 {
		for start := 0; start < len(best.Blocks) && time.Now().Before(deadline); start += chunk {
			c := cloneScenario(best)
			changed := false
			for i := start; i < start+chunk && i < len(c.Blocks); i++ {
				if len(c.Blocks[i].Ops) > 0 || len(c.Blocks[i].Evidence) > 0 || len(c.Blocks[i].Absent) > 0 || c.Blocks[i].AllAbsent || c.Blocks[i].Restart {
					c.Blocks[i].Ops, c.Blocks[i].Evidence, c.Blocks[i].Absent, c.Blocks[i].AllAbsent, c.Blocks[i].Restart = nil, nil, nil, false, false
					changed = true
				}
			}
			if changed {
				try(c)
			}
		}
	}
	// 3. drop blocks entirely from the front (changes heights; often still fails)
	for i := 0; i < len(best.Blocks)-1 && time.Now().Before(deadline); {
		c := cloneScenario(best)
		c.Blocks = append(c.Blocks[:i], c.Blocks[i+1:]...)
		if !try(c) {
			i++
		}
	}
	// 4. drop single ops and faults
	for bi := 0; bi < len(best.Blocks) && time.Now().Before(deadline); bi++ {
		for oi := 0; oi < len(best.Blocks[bi].Ops); {
			c := cloneScenario(best)
			c.Blocks[bi].Ops = append(c.Blocks[bi].Ops[:oi], c.Blocks[bi].Ops[oi+1:]...)
			if !try(c) {
				oi++
			}
		}
		if len(best.Blocks[bi].Evidence) > 0 {
			c := cloneScenario(best)
			c.Blocks[bi].Evidence = nil
			try(c)
		}
		if len(best.Blocks[bi].Absent) > 0 || best.Blocks[bi].AllAbsent {
			c := cloneScenario(best)
			c.Blocks[bi].Absent, c.Blocks[bi].AllAbsent = nil, false
			try(c)
		}
		if best.Blocks[bi].Dt != 5 {
			c := cloneScenario(best)
			c.Blocks[bi].Dt = 5
			try(c)
		}
		if best.Blocks[bi].Restart {
			c := cloneScenario(best)
			c.Blocks[bi].Restart = false
			try(c)
		}
	}
	// 5. simplify remaining ops
	for bi := 0; bi < len(best.Blocks) && time.Now().Before(deadline); bi++ {
		for oi := range best.Blocks[bi].Ops {
			o := best.Blocks[bi].Ops[oi]
			simpl := []func(*Op){
				func(o *Op) { o.MS = nil },
				func(o *Op) { o.G = 0 },
				func(o *Op) { o.PL, o.SD = 0, 0 },
				func(o *Op) { o.GP, o.ZGP = 0, false },
				func(o *Op) { o.NM, o.SM, o.CH = 0, 0, 0 },
			}
			for _, f := range simpl {
				c := cloneScenario(best)
				before, _ := json.Marshal(o)
				f(&c.Blocks[bi].Ops[oi])
				after, _ := json.Marshal(c.Blocks[bi].Ops[oi])
				if string(before) == string(after) {
					continue
				}
				if try(c) {
					o = best.Blocks[bi].Ops[oi]
				}
			}
		}
	}
	return best, tries
}
