package chain

import (
	"fmt"
	"math/big"
	"math/rand"
	"strings"
	"time"

	eventsdb "github.com/MinterTeam/minter-go-node/coreV2/events"
	"github.com/MinterTeam/minter-go-node/coreV2/transaction"
	"github.com/MinterTeam/minter-go-node/coreV2/types"
)

var emissionCap, _ = new(big.Int).SetString("10000000000000000000000000000", 10)
var tenBip = pip(10)

// ---------------- C28: block reward follows the price rule and stops at the cap ----------------

type MonC28 struct {
	NopMonitor
	t       time.Time // time of the previous update
	r0, r1  *big.Int  // pool reserves at the previous update (BIP, USDT)
	last    *big.Int  // validators' share
	safe    *big.Int  // price-derived level (what is minted per block)
	off     bool
	classes map[string]bool
}

func (m *MonC28) Genesis(w *World) {
	g := &w.GenesisState
	m.t = time.Unix(0, int64(g.PrevReward.Time)).UTC()
	m.r0, m.r1 = bi(g.PrevReward.AmountBIP), bi(g.PrevReward.AmountUSDT)
	m.last, m.safe = bi(g.PrevReward.Reward), bi(g.PrevReward.Reward)
	m.off = g.PrevReward.Off
	m.classes = map[string]bool{}
}

// level computes floor(350 * (r1/r0)^(1/4) * 1e18) with 400-bit floats.
func level(r0, r1 *big.Int) *big.Int {
	x := new(big.Float).SetPrec(400).Quo(new(big.Float).SetPrec(400).SetInt(r1), new(big.Float).SetPrec(400).SetInt(r0))
	x.Sqrt(x)
	x.Sqrt(x)
	x.Mul(x, new(big.Float).SetPrec(400).SetInt(pip(350)))
	i, _ := x.Int(nil)
	return i
}

func (m *MonC28) AfterBlock(w *World, b *BlockCtx) {
	if b.Cur == nil || w.Viol != nil {
		return
	}
	h := uint64(b.Height)
	p := w.Sc.Node.Period
	belowCap := b.EmPrev.Cmp(emissionCap) < 0
	reward, safe := w.Node.App.CurrentState().App().Reward()
	hr := b.Req.Time.UTC().Hour()
	var pool *types.Pool
	for _, pl := range b.Prev.Pools {
		if pl.Coin0 == 0 && pl.Coin1 == uint64(types.USDTID) {
			pool = pl
		}
	}
	cls := "no-update"
	if !belowCap {
		cls = "cap-reached"
		if reward.Sign() != 0 || safe.Sign() != 0 {
			w.Report("C28", "reward-rule", "reward-after-cap", fmt.Sprintf("height %d: emission %s is at the cap but the block reward is %s / %s", b.Height, b.EmPrev, reward, safe), b.Height)
			return
		}
		if d := new(big.Int).Sub(b.EmCur, b.EmPrev); d.Sign() != 0 && !lockedAccounts(b.Prev) {
			w.Report("C28", "reward-rule", "mint-after-cap", fmt.Sprintf("height %d: emission grew by %s after the cap", b.Height, d), b.Height)
			return
		}
		m.classes[cls] = true
		w.Probe("c28_cap_block")
		return
	}
	due := h%p == 1 && pool != nil && (m.t.IsZero() || (hr >= 12 && hr <= 14 && b.Req.Time.Sub(m.t) > 3*time.Hour))
	if due {
		nr0, nr1 := bi(pool.Reserve0), bi(pool.Reserve1)
		L := level(nr0, nr1)
		// the node's level is a 64-bit float power: accept it within 1e-12 and carry its value on
		diffL := new(big.Int).Abs(new(big.Int).Sub(L, safe))
		if new(big.Int).Mul(diffL, big.NewInt(1e12)).Cmp(L) > 0 {
			w.Report("C28", "reward-rule", "level", fmt.Sprintf("height %d: update due (hour %d, %v after the previous one): price-derived level should be %s (350*p^(1/4), p=%s/%s), node mints %s", b.Height, hr, b.Req.Time.Sub(m.t), L, nr1, nr0, safe), b.Height)
			return
		}
		L = new(big.Int).Set(safe)
		switch {
		case m.t.IsZero():
			m.last, m.off = new(big.Int).Set(L), false
			cls = "first-update"
		default:
			// floor(100*(pNew-pOld)/pOld) with exact rationals
			num := new(big.Int).Sub(new(big.Int).Mul(nr1, m.r0), new(big.Int).Mul(m.r1, nr0))
			num.Mul(num, big.NewInt(100))
			den := new(big.Int).Mul(m.r1, nr0)
			pct := new(big.Int).Div(num, den) // Euclidean: floor for a positive divisor
			switch {
			case pct.Cmp(big.NewInt(-10)) <= 0:
				m.last, m.off = big.NewInt(0), true
				cls = "price-drop"
			case m.off && m.last.Cmp(L) < 0:
				m.last = new(big.Int).Add(m.last, tenBip)
				cls = "recovering"
				if m.last.Cmp(L) >= 0 {
					m.last, m.off = new(big.Int).Set(L), false
					cls = "recovered"
				}
			default:
				m.last, m.off = new(big.Int).Set(L), false
				cls = "normal-update"
			}
		}
		m.safe = L
		m.t, m.r0, m.r1 = b.Req.Time.UTC(), nr0, nr1
		w.Probe("c28_update")
	} else if h%p == 1 && pool != nil {
		cls = "not-due"
		if hr >= 12 && hr <= 14 {
			cls = "in-window-too-soon"
		}
	}
	m.classes[cls] = true
	if reward.Cmp(m.last) != 0 || safe.Cmp(m.safe) != 0 {
		w.Report("C28", "reward-rule", "reward:"+cls, fmt.Sprintf("height %d (%s, block time %s, previous update %s): validators' reward %s and minted amount %s expected, node has %s and %s", b.Height, cls, b.Req.Time.UTC().Format(time.RFC3339), m.t.Format(time.RFC3339), m.last, m.safe, reward, safe), b.Height)
		return
	}
	// the price record on disk follows the same rule
	t, r0, r1, last, off := ColdAppDB(w.Disk).GetPrice()
	if !t.Equal(m.t) || cmpNil(r0, m.r0) || cmpNil(r1, m.r1) || last.Cmp(m.last) != 0 || off != m.off {
		w.Report("C28", "reward-rule", "price-record:"+cls, fmt.Sprintf("height %d: price record (%v %v %v %v %v), expected (%v %v %v %v %v)", b.Height, t, r0, r1, last, off, m.t, m.r0, m.r1, m.last, m.off), b.Height)
		return
	}
	// minting: emission grows by the minted amount, the withheld part goes to the zero address
	if !lockedAccounts(b.Prev) || h%p != 0 {
		if d := new(big.Int).Sub(b.EmCur, b.EmPrev); d.Cmp(m.safe) != 0 {
			w.Report("C28", "reward-rule", "emission-step:"+cls, fmt.Sprintf("height %d: emission grew by %s, the minted amount is %s", b.Height, d, m.safe), b.Height)
			return
		}
	}
	burned := new(big.Int)
	for i, r := range b.Res.Deliver {
		_ = i
		for _, e := range r.Events {
			for _, a := range e.Attributes {
				if string(a.Key) == "tx.burned_for_symbol" {
					if v := bi(string(a.Value)); v != nil {
						burned.Add(burned, v)
					}
				}
			}
		}
	}
	withheld := new(big.Int).Sub(m.safe, m.last)
	zero := flatDelta(b, "bal/"+types.Address{}.String()+"/0")
	if !zeroAddressTouched(b) && !w.Sc.Node.ValidatorMode {
		if want := new(big.Int).Add(withheld, burned); zero.Cmp(want) != 0 {
			w.Report("C28", "reward-rule", "withheld-not-burned:"+cls, fmt.Sprintf("height %d: minted %s, validators get %s: %s should reach the zero address (plus ticker burns %s), its balance changed by %s", b.Height, m.safe, m.last, withheld, burned, zero), b.Height)
			return
		}
	}
	if withheld.Sign() > 0 {
		w.Probe("c28_withheld_block")
	}
	w.Probe("c28_block_checked")
}

func lockedAccounts(s *Snap) bool {
	for i := range s.Raw.Accounts {
		if s.Raw.Accounts[i].LockStakeUntilBlock != 0 {
			return true
		}
	}
	return false
}

// zeroAddressTouched: some transaction of the block may pay or charge the zero address directly.
func zeroAddressTouched(b *BlockCtx) bool {
	z := types.Address{}
	for i, m := range b.Metas {
		if i >= len(b.Res.Deliver) {
			break
		}
		switch d := m.Data.(type) {
		case transaction.SendData:
			if d.To == z {
				return true
			}
		case transaction.MultisendData:
			for _, it := range d.List {
				if it.To == z {
					return true
				}
			}
		case transaction.CreateSwapPoolData, transaction.RemoveLiquidityV240, transaction.RedeemCheckData:
			return true
		}
		if m.Garbage || m.Malleated {
			return true
		}
	}
	// matured frozen funds of the zero address, order refunds etc.
	for _, f := range b.Prev.Raw.FrozenFunds {
		if f.Address == z && f.Height == uint64(b.Height) {
			return true
		}
	}
	for _, pl := range b.Prev.Pools {
		for _, o := range pl.Orders {
			if o.Owner == z {
				return true
			}
		}
	}
	return false
}

// ---------------- C19: rewards proportional, never over-paid ----------------

type MonC19 struct {
	NopMonitor
	classes map[string]bool
}

func (m *MonC19) Genesis(w *World) { m.classes = map[string]bool{} }

func (m *MonC19) AfterBlock(w *World, b *BlockCtx) {
	if b.Cur == nil || w.Viol != nil || b.Height == w.Sc.InitialH {
		return
	}
	if len(b.Req.Evidence) > 0 {
		return // slashing moves total slashed as well: judged by C18/C01
	}
	h := uint64(b.Height)
	p := w.Sc.Node.Period
	pw, total := presentPower(b)
	// validators leaving the set by being dropped (absence) return their accrual to the pool first
	accPrev := map[types.Pubkey]*big.Int{}
	sumPrev := new(big.Int)
	for pk, v := range b.Prev.Vals {
		accPrev[pk] = bi(v.AccumReward)
		sumPrev.Add(sumPrev, accPrev[pk])
	}
	// validators switched off in this block (by their owner or for absence) are dropped: their accrual
	// returns to the pool and they take no part in this block's distribution
	dropped := map[types.Pubkey]bool{}
	for pk := range b.Prev.Vals {
		pc := b.Prev.CandByPK[pk]
		if pc == nil {
			continue
		}
		cc := b.Cur.candByID(fmt.Sprint(pc.ID))
		switchedOff := false
		for i, mm := range b.Metas {
			if d, ok := mm.Data.(transaction.SetCandidateOffData); ok && d.PubKey == pk && i < len(b.Res.Deliver) && b.Res.Deliver[i].Code == 0 {
				switchedOff = true // even if it is switched on again later in the block
			}
		}
		// switched off for absence in this block's BeginBlock (13th miss in the 24-block window), even if
		// its owner switches it on again later in the block
		if v := b.Prev.Vals[pk]; v != nil && v.AbsentTimes != nil && !gracePeriod(w, b.Height) {
			bits := v.AbsentTimes.String()
			if i := strings.Index(bits, ":"); i >= 0 {
				bits = strings.TrimSuffix(bits[i+1:], "}")
			}
			missed := strings.Count(bits, "x")
			if idx := int(h % 24); idx < len(bits) && bits[idx] == 'x' {
				missed-- // this height's slot is overwritten: the old miss in it is forgotten
			}
			absentNow := false
			for _, vt := range b.Req.Votes {
				var a types.TmAddress
				copy(a[:], vt.Validator.Address)
				if a == TmAddr(pk) && !vt.SignedLastBlock {
					absentNow = true
				}
			}
			if absentNow && missed+1 > 12 {
				switchedOff = true
			}
		}
		if cc == nil || cc.Status != 2 || switchedOff {
			dropped[pk] = true
			if s, ok := pw[pk]; ok {
				total = new(big.Int).Sub(total, s)
				delete(pw, pk)
			}
			sumPrev.Sub(sumPrev, accPrev[pk])
			accPrev[pk] = new(big.Int)
		}
		if cc != nil && cc.PubKey != pk {
			dropped[pk] = true // public key changed in this block: skipped by the payout, accrual to total slashed
		}
	}
	locked := lockedAccounts(b.Prev) || lockedAccounts(b.Cur)
	payout := h%p == 0
	if !payout {
		if len(b.Updates) > 0 {
			return // set rebuilt mid-period (drop / key change): accruals move, judged by C01
		}
		// D = everything distributed in this block
		D := new(big.Int)
		for pk := range b.Prev.Vals {
			D.Add(D, flatDelta(b, "val/"+pk.String()+"/accum"))
		}
		D.Add(D, flatDelta(b, "slashed"))
		if D.Sign() < 0 {
			w.Report("C19", "rewards", "negative-distribution", fmt.Sprintf("height %d: validators' accrual + total slashed shrank by %s", b.Height, D), b.Height)
			return
		}
		if total.Sign() == 0 {
			m.classes["nobody-present"] = true
			for pk := range b.Prev.Vals {
				if d := flatDelta(b, "val/"+pk.String()+"/accum"); d.Sign() != 0 {
					w.Report("C19", "rewards", "absent-accrued", fmt.Sprintf("height %d: nobody signed, yet %s accrued %s", b.Height, pk.String(), d), b.Height)
					return
				}
			}
			return
		}
		for pk := range b.Prev.Vals {
			got := flatDelta(b, "val/"+pk.String()+"/accum")
			exp := new(big.Int)
			if s, ok := pw[pk]; ok {
				exp.Div(new(big.Int).Mul(D, s), total)
			}
			if got.Cmp(exp) != 0 {
				cls := "present"
				if _, ok := pw[pk]; !ok {
					cls = "absent"
				}
				w.Report("C19", "rewards", "accrual:"+cls, fmt.Sprintf("height %d: %d of %d validators present, distributed %s: %s validator %s with stake %v of %s accrued %s, expected %s", b.Height, len(pw), len(b.Prev.Vals), D, cls, pk.String(), pw[pk], total, got, exp), b.Height)
				return
			}
		}
		m.classes[fmt.Sprintf("accrual/present%d-of-%d", min(len(pw), 4), min(len(b.Prev.Vals), 4))] = true
		w.Probe("c19_accrual_checked")
		return
	}
	// ---- payout block ----
	if w.Sc.Node.ValidatorMode {
		return // events are not recorded in validator mode
	}
	evs := eventsdb.NewEventsStore(w.Disk.Store("events")).LoadEvents(uint32(h))
	type split struct{ dao, dev, val, deleg, sum *big.Int }
	per := map[types.Pubkey]*split{}
	delegs := map[types.Pubkey]map[string]*big.Int{}
	for _, e := range evs {
		re, ok := e.(*eventsdb.RewardEvent)
		if !ok {
			continue
		}
		s := per[re.ValidatorPubKey]
		if s == nil {
			s = &split{new(big.Int), new(big.Int), new(big.Int), new(big.Int), new(big.Int)}
			per[re.ValidatorPubKey] = s
			delegs[re.ValidatorPubKey] = map[string]*big.Int{}
		}
		a := bi(re.Amount)
		if a == nil || a.Sign() < 0 {
			w.Report("C19", "rewards", "bad-event-amount", fmt.Sprintf("height %d: reward event amount %q", b.Height, re.Amount), b.Height)
			return
		}
		switch re.Role {
		case eventsdb.RoleDAO.String():
			s.dao.Add(s.dao, a)
		case eventsdb.RoleDevelopers.String():
			s.dev.Add(s.dev, a)
		case eventsdb.RoleValidator.String():
			s.val.Add(s.val, a)
		case eventsdb.RoleDelegator.String():
			s.deleg.Add(s.deleg, a)
			k := fmt.Sprintf("%s/%d", re.Address.String(), re.ForCoin)
			if delegs[re.ValidatorPubKey][k] == nil {
				delegs[re.ValidatorPubKey][k] = new(big.Int)
			}
			delegs[re.ValidatorPubKey][k].Add(delegs[re.ValidatorPubKey][k], a)
		}
		s.sum.Add(s.sum, a)
	}
	paid := new(big.Int)
	for _, s := range per {
		paid.Add(paid, s.sum)
	}
	moreEmission := new(big.Int).Sub(new(big.Int).Sub(b.EmCur, b.EmPrev), blockMint(w, b))
	// D = this block's distribution: paid + growth of total slashed - what had accrued before - emission bonus
	D := new(big.Int).Add(paid, flatDelta(b, "slashed"))
	D.Sub(D, sumPrev)
	D.Sub(D, moreEmission)
	for pk := range b.Cur.Vals {
		if a := bi(b.Cur.Vals[pk].AccumReward); a != nil && a.Sign() != 0 {
			// validators elected in this very block start at zero
			w.Report("C19", "rewards", "accrual-left-after-payout", fmt.Sprintf("height %d: validator %s keeps accrual %s after the payout", b.Height, pk.String(), a), b.Height)
			return
		}
	}
	if D.Sign() < 0 {
		w.Report("C19", "rewards", "over-paid", fmt.Sprintf("height %d: payout events %s + total-slashed growth %s exceed previous accruals %s + locked-stake bonus %s", b.Height, paid, flatDelta(b, "slashed"), sumPrev, moreEmission), b.Height)
		return
	}
	for pk, v := range b.Prev.Vals {
		if dropped[pk] {
			continue
		}
		A := new(big.Int).Set(accPrev[pk])
		if s, ok := pw[pk]; ok && total.Sign() > 0 {
			A.Add(A, new(big.Int).Div(new(big.Int).Mul(D, s), total))
		}
		s := per[pk]
		if s == nil {
			if A.Sign() != 0 && bi(v.TotalBipStake).Sign() != 0 && b.Prev.CandByPK[pk] != nil {
				w.Report("C19", "rewards", "accrual-not-paid", fmt.Sprintf("height %d: validator %s accrued %s but no reward events were recorded", b.Height, pk.String(), A), b.Height)
				return
			}
			continue
		}
		if locked {
			// the locked-stake bonus enlarges DAO / developers / delegator shares: only the bound is checked
			if over := new(big.Int).Sub(s.sum, A); over.Cmp(moreEmission) > 0 {
				w.Report("C19", "rewards", "over-paid-locked", fmt.Sprintf("height %d: validator %s accrued %s, paid %s, emission bonus of the block %s", b.Height, pk.String(), A, s.sum, moreEmission), b.Height)
				return
			}
			m.classes["payout-locked"] = true
			continue
		}
		c := b.Prev.CandByPK[pk]
		if c == nil {
			continue
		}
		tenth := new(big.Int).Div(A, big.NewInt(10))
		rest := new(big.Int).Sub(A, new(big.Int).Mul(tenth, big.NewInt(2)))
		commission := c.Commission
		if cc := b.Cur.candByID(fmt.Sprint(c.ID)); cc != nil {
			commission = cc.Commission // an EditCandidateCommission of this block applies to this payout
		}
		valR := new(big.Int).Div(new(big.Int).Mul(rest, big.NewInt(int64(commission))), big.NewInt(100))
		rest.Sub(rest, valR)
		if s.dao.Cmp(tenth) != 0 || s.dev.Cmp(tenth) != 0 || s.val.Cmp(valR) != 0 {
			w.Report("C19", "rewards", "split", fmt.Sprintf("height %d: validator %s accrued %s (commission %d%%): expected DAO %s developers %s validator %s, events say %s %s %s", b.Height, pk.String(), A, commission, tenth, tenth, valR, s.dao, s.dev, s.val), b.Height)
			return
		}
		vt := bi(v.TotalBipStake)
		for _, st := range c.Stakes {
			bv := bi(st.BipValue)
			if bv == nil || bv.Sign() == 0 || vt.Sign() == 0 {
				continue
			}
			exp := new(big.Int).Div(new(big.Int).Mul(rest, bv), vt)
			got := delegs[pk][fmt.Sprintf("%s/%d", st.Owner.String(), st.Coin)]
			if got == nil {
				got = new(big.Int)
			}
			if got.Cmp(exp) != 0 {
				w.Report("C19", "rewards", "delegator-share", fmt.Sprintf("height %d: validator %s: delegator %s coin %d with bip value %s of %s should receive %s of %s, events say %s", b.Height, pk.String(), st.Owner.String(), st.Coin, bv, vt, exp, rest, got), b.Height)
				return
			}
		}
		if s.sum.Cmp(A) > 0 {
			w.Report("C19", "rewards", "over-paid-validator", fmt.Sprintf("height %d: validator %s accrued %s but %s was paid out", b.Height, pk.String(), A, s.sum), b.Height)
			return
		}
		m.classes[fmt.Sprintf("payout/commission%d", c.Commission/34)] = true
		w.Probe("c19_payout_validator_checked")
	}
	w.Probe("c19_payout_checked")
}

// blockMint is the per-block emission step (the minted amount when below the cap).
func blockMint(w *World, b *BlockCtx) *big.Int {
	if b.EmPrev.Cmp(emissionCap) >= 0 {
		return new(big.Int)
	}
	_, safe := w.Node.App.CurrentState().App().Reward()
	return new(big.Int).Set(safe)
}

func init() {
	register(&PropSpec{ID: "C28", Level: "exploration",
		Rule: "clock-driven histories: stake periods of 6..24 blocks whose first block is steered before, inside and after 12:00-14:59 and within / beyond 3 hours of the previous update; trades on the BIP/USDT pool move the price by small amounts, about -10% and large drops and recoveries; genesis emission near the cap in some runs; the node under test restarted at random blocks in a third of the runs; exact-rational reference model (floor of the percentage change, +10 BIP recovery, level 350*p^(1/4) accepted within 1e-12 of the node's float) compared with the live block reward, the persisted price record, the emission step and the zero-address burn; distinct non-trivial case = distinct update class",
		Make: func(r *rand.Rand, seed int64, chain int, tier string) *Scenario {
			p := Profile{W: map[string]int{"send": 3, "sellusdt": 6, "sellbip": 6, "delegate": 1, "sellpool": 1}, TxMin: 0, TxMax: 3, PAbsent: 0.01}
			sc := baseScenario("C28", r, seed, chain, tier, p, func(g *GenCfg, n *NodeCfg) {
				g.OldRules = false
				g.NearCap = r.Intn(4) == 0
				n.Period = []uint64{6, 6, 8, 12}[r.Intn(4)]
			})
			st, _ := UnmarshalGenesis(sc.Genesis)
			// previous update some hours or days before genesis, sometimes never
			switch r.Intn(4) {
			case 0:
				st.PrevReward.Time = 0
			default:
				st.PrevReward.Time = uint64((sc.Time0 - int64(r.Intn(100*3600))) * 1e9)
			}
			if st.PrevReward.Off {
				st.PrevReward.Reward = pip(float64(10 * r.Intn(20))).String()
			}
			sc.Genesis = MarshalGenesis(st)
			steerPriceWindow(r, sc, true)
			// the node is restarted now and then, also in the middle of a stake period: what it remembers of the
			// emission, the price record and the withheld level must carry the rule on unchanged
			if r.Intn(3) == 0 {
				sc.Params = map[string]int64{"main_restart": 1}
				for i := range sc.Blocks {
					if i > 0 && r.Intn(8) == 0 {
						sc.Blocks[i].Restart = true
					}
				}
			}
			return sc
		},
		Monitors: func(sc *Scenario) []Monitor { return []Monitor{&MonC28{}} },
		Distinct: func(w *World) []string {
			for _, m := range w.Monitors {
				if c, ok := m.(*MonC28); ok {
					var out []string
					for k := range c.classes {
						out = append(out, k)
					}
					return out
				}
			}
			return nil
		},
		ExpectProbes: []string{"c28_block_checked", "c28_update", "c28_withheld_block", "c28_cap_block"},
	})
	register(&PropSpec{ID: "C19", Level: "exploration",
		Rule: "payout-period histories with varied stake vectors (equal, skewed, tiny, custom-coin stakes), commissions 0..100, absences (single, all), fees; reference: per block the distributed amount D (growth of accruals + total slashed) must be split floor(D*stake/present stake) among validators signed present and nothing to absent ones; at payout blocks each validator's accrual A is split into floor(A/10) DAO, floor(A/10) developers, floor(rest*commission/100) validator and floor(rest*bip/total) per delegator as read from the stored reward events; sum paid <= A, never more than previous accruals plus the block's distribution (plus the emission bonus of locked stakes); distinct non-trivial case = distinct (accrual presence class, payout commission class)",
		Make: func(r *rand.Rand, seed int64, chain int, tier string) *Scenario {
			p := GeneralProfile()
			p.PEvidence = 0.005
			p.PAbsent, p.PStreak = 0.08, 0.01
			p.W["delegate"], p.W["unbond"], p.W["editcandcomm"] = 10, 6, 4
			return baseScenario("C19", r, seed, chain, tier, p, func(g *GenCfg, n *NodeCfg) {
				g.NVal = 1 + r.Intn(6)
				n.Period = []uint64{6, 8, 12}[r.Intn(3)]
				n.ValidatorMode = false
			})
		},
		Monitors: func(sc *Scenario) []Monitor { return []Monitor{&MonC19{}} },
		Distinct: func(w *World) []string {
			for _, m := range w.Monitors {
				if c, ok := m.(*MonC19); ok {
					var out []string
					for k := range c.classes {
						out = append(out, k)
					}
					return out
				}
			}
			return nil
		},
		ExpectProbes: []string{"c19_accrual_checked", "c19_payout_checked", "c19_payout_validator_checked"},
	})
	_ = strings.TrimSpace
}

// steerPriceWindow moves the first block of stake periods into / around the 12:00-14:59 window of
// the reward price update and sizes BIP/USDT trades as fractions of the pool (small moves, about
// -10%, large drops and recoveries). strict also strips evidence and tx faults from those trades (C28).
func steerPriceWindow(r *rand.Rand, sc *Scenario, strict bool) {
	now := sc.Time0
	for i := range sc.Blocks {
		bo := &sc.Blocks[i]
		if strict {
			bo.Evidence = nil
		}
		h := uint64(sc.InitialH + int64(i))
		if h%sc.Node.Period == 1 && r.Intn(4) != 0 {
			day := (now/86400 + int64(r.Intn(2))) * 86400
			var tod int64
			switch r.Intn(8) {
			case 0:
				tod = 12*3600 - 1 - int64(r.Intn(5))
			case 1:
				tod = 12 * 3600
			case 2:
				tod = 15*3600 - 1
			case 3:
				tod = 15 * 3600
			default:
				tod = 12*3600 + int64(r.Intn(3*3600))
			}
			target := day + tod
			if target <= now {
				target += 86400
			}
			bo.Dt = target - now
		}
		now += bo.Dt
		for j := range bo.Ops {
			o := &bo.Ops[j]
			if o.K == "sellusdt" || o.K == "sellbip" {
				// fraction of the pool reserve: small moves, about 10%, large
				o.V[0] = Amt{Mode: 1, M: uint64([]int{1, 5, 20, 52, 55, 60, 120, 400}[r.Intn(8)])}
				if strict {
					o.NM, o.SM, o.MS, o.CH, o.G = 0, 0, nil, 0, 0
				}
			}
		}
	}
}
