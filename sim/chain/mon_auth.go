package chain

import (
	"fmt"
	"math/big"
	"math/rand"
	"strings"

	"github.com/MinterTeam/minter-go-node/coreV2/check"
	"github.com/MinterTeam/minter-go-node/coreV2/transaction"
	"github.com/MinterTeam/minter-go-node/coreV2/types"
	abci "github.com/tendermint/tendermint/abci/types"
)

// MonC05: value leaves an account only with its authorisation. The set of authorisers of a block is
// computed by the harness from the keys it signed with (never from what the node recovered).
type MonC05 struct {
	NopMonitor
	classes map[string]bool
}

func (m *MonC05) Genesis(w *World) { m.classes = map[string]bool{} }

// AfterTx: acceptance itself must be authorised.
func (m *MonC05) AfterTx(w *World, b *BlockCtx, tm *TxMeta, r abci.ResponseDeliverTx) {
	if r.Code != 0 || tm.Garbage || tm.Malleated {
		return
	}
	if tm.SigMode >= 1 && tm.SigMode <= 3 {
		w.Report("C05", "authorisation", "forged-signature-accepted:"+tm.Kind, fmt.Sprintf("height %d: %s with signature mode %d (garbage / high S / bad V) was accepted", b.Height, tm.Kind, tm.SigMode), b.Height)
		return
	}
	if !tm.SigOK {
		w.Report("C05", "authorisation", "underweight-multisig-accepted:"+tm.Kind, fmt.Sprintf("height %d: %s from multisig %s accepted although the harness's own weight count of distinct listed signers is below the threshold (signers %v)", b.Height, tm.Kind, tm.Sender.String(), tm.Signers), b.Height)
		return
	}
	if tm.Op.MS != nil {
		w.Probe("c05_multisig_accepted")
	}
	// owner-gated operations
	owner := func(pk types.Pubkey) (types.Address, types.Address, bool) {
		if c, ok := b.Prev.CandByPK[pk]; ok {
			return c.OwnerAddress, c.ControlAddress, true
		}
		return types.Address{}, types.Address{}, false
	}
	gate := func(what string, allowed ...types.Address) {
		for _, a := range allowed {
			if a == tm.Sender {
				w.Probe("c05_owner_gated_ok")
				return
			}
		}
		w.Report("C05", "authorisation", "non-owner:"+tm.Kind, fmt.Sprintf("height %d: %s accepted from %s, who is not the %s", b.Height, tm.Kind, tm.Sender.String(), what), b.Height)
	}
	coinOwner := func(sym types.CoinSymbol) (types.Address, bool) {
		for _, c := range b.Prev.Raw.Coins {
			if c.Symbol == sym && c.OwnerAddress != nil {
				return *c.OwnerAddress, true
			}
		}
		return types.Address{}, false
	}
	changedThisBlock := func(kinds ...string) bool {
		for _, mm := range b.Metas {
			for _, k := range kinds {
				if mm.Kind == k && mm != tm {
					return true
				}
			}
		}
		return false
	}
	switch d := tm.Data.(type) {
	case transaction.EditCandidateData:
		if o, _, ok := owner(d.PubKey); ok && !changedThisBlock("editcand", "editcandpk") {
			gate("candidate owner", o)
		}
	case transaction.EditCandidatePublicKeyData:
		if o, _, ok := owner(d.PubKey); ok && !changedThisBlock("editcand", "editcandpk") {
			gate("candidate owner", o)
		}
	case transaction.EditCandidateCommission:
		if o, _, ok := owner(d.PubKey); ok && !changedThisBlock("editcand", "editcandpk") {
			gate("candidate owner", o)
		}
	case transaction.SetCandidateOnData:
		if o, c, ok := owner(d.PubKey); ok && !changedThisBlock("editcand", "editcandpk") {
			gate("candidate owner or control address", o, c)
		}
	case transaction.SetCandidateOffData:
		if o, c, ok := owner(d.PubKey); ok && !changedThisBlock("editcand", "editcandpk") {
			gate("candidate owner or control address", o, c)
		}
	case transaction.SetHaltBlockData:
		if o, _, ok := owner(d.PubKey); ok && !changedThisBlock("editcand", "editcandpk") {
			gate("candidate owner", o)
		}
	case transaction.VoteUpdateDataV230:
		if o, _, ok := owner(d.PubKey); ok && !changedThisBlock("editcand", "editcandpk") {
			gate("candidate owner", o)
		}
	case transaction.VoteCommissionDataV3:
		if o, _, ok := owner(d.PubKey); ok && !changedThisBlock("editcand", "editcandpk") {
			gate("candidate owner", o)
		}
	case transaction.RecreateCoinData:
		if o, ok := coinOwner(d.Symbol); ok && !changedThisBlock("editcoinowner", "recreatecoin", "recreatetoken") {
			gate("ticker owner", o)
		}
	case transaction.RecreateTokenData:
		if o, ok := coinOwner(d.Symbol); ok && !changedThisBlock("editcoinowner", "recreatecoin", "recreatetoken") {
			gate("ticker owner", o)
		}
	case transaction.EditCoinOwnerData:
		if o, ok := coinOwner(d.Symbol); ok && !changedThisBlock("editcoinowner", "recreatecoin", "recreatetoken") {
			gate("ticker owner", o)
		}
	case transaction.MintTokenData:
		if c, ok := b.Prev.Coins[uint64(d.Coin)]; ok && !changedThisBlock("editcoinowner", "recreatecoin", "recreatetoken") {
			if c.OwnerAddress == nil {
				w.Report("C05", "authorisation", "mint-ownerless", fmt.Sprintf("height %d: coin %d (%s) without owner was minted by %s", b.Height, c.ID, c.Symbol, tm.Sender.String()), b.Height)
			} else {
				gate("ticker owner", *c.OwnerAddress)
			}
		}
	case transaction.RemoveLimitOrderData:
		for _, pl := range b.Prev.Pools {
			for _, o := range pl.Orders {
				if o.ID == uint64(d.ID) {
					gate("order owner", o.Owner)
				}
			}
		}
	}
}

// authSet returns the addresses that authorised something delivered in this block.
func authSet(w *World, b *BlockCtx) map[types.Address]bool {
	auth := map[types.Address]bool{}
	for _, tm := range b.Metas {
		if tm.Garbage || tm.Malleated {
			// bookkeeping through the decoder: a mutated copy can still carry a genuine check
			tx, err := txDecoder.DecodeFromBytes(tm.Bytes)
			if err != nil {
				continue
			}
			if s, err := tx.Sender(); err == nil {
				auth[s] = true
			}
			if rd, ok := tx.GetDecodedData().(*transaction.RedeemCheckData); ok {
				if ck, err := check.DecodeFromBytes(rd.RawCheck); err == nil {
					if is, err := ck.Sender(); err == nil {
						auth[is] = true
					}
				}
			}
			continue
		}
		if tm.SigOK {
			auth[tm.Sender] = true
		}
		if tm.Issuer != nil {
			auth[*tm.Issuer] = true
		}
	}
	return auth
}

func (m *MonC05) AfterBlock(w *World, b *BlockCtx) {
	if b.Cur == nil || w.Viol != nil {
		return
	}
	auth := authSet(w, b)
	prev, cur := Flatten(&b.Prev.Raw), Flatten(&b.Cur.Raw)
	deltas := DiffFlat(prev, cur)
	p := w.Sc.Node.Period
	expiryBlock := uint64(b.Height)%p == p/2
	hasEvidence := len(b.Req.Evidence) > 0
	anyTrade := len(b.Metas) > 0
	for _, d := range deltas {
		n := d.Num()
		seg := strings.Split(d.Path, "/")
		switch seg[0] {
		case "bal":
			if n == nil || n.Sign() >= 0 {
				continue
			}
			a := types.HexToAddress(seg[1])
			if !auth[a] {
				w.Report("C05", "authorisation", "balance-decrease", fmt.Sprintf("height %d: balance of %s in coin %s fell from %s to %q although nothing delivered in this block was signed by it (or redeemed a check of it); txs: %s", b.Height, seg[1], seg[2], d.Old, d.New, txSummary(b)), b.Height)
				return
			}
			m.classes["balance-decrease-authorised"] = true
		case "stake":
			if n == nil || n.Sign() >= 0 {
				continue
			}
			owner := types.HexToAddress(seg[2])
			if auth[owner] {
				continue
			}
			candGone := cur["cand/"+seg[1]+"/pubkey"] == ""
			wl := DeltaOf(deltas, fmt.Sprintf("waitlist/%s/%s/%s", seg[1], seg[2], seg[3]))
			switch {
			case hasEvidence:
				m.classes["stake-slashed"] = true
			case candGone:
				m.classes["stake-candidate-removed"] = true
			case wl.Sign() > 0 && new(big.Int).Add(wl, n).Sign() >= 0:
				m.classes["stake-kicked-to-waitlist"] = true
			default:
				w.Report("C05", "authorisation", "stake-withdrawn", fmt.Sprintf("height %d: stake %s fell from %s to %q without a transaction of its owner, evidence, candidate removal or kick to the waitlist", b.Height, d.Path, d.Old, d.New), b.Height)
				return
			}
		case "waitlist":
			if n == nil || n.Sign() >= 0 {
				continue
			}
			owner := types.HexToAddress(seg[2])
			if !auth[owner] {
				// a waitlist entry may move into the stake list of its candidate at a recalculation
				st := DeltaOf(deltas, fmt.Sprintf("stake/%s/%s/%s", seg[1], seg[2], seg[3]))
				up := DeltaOf(deltas, fmt.Sprintf("update/%s/%s/%s", seg[1], seg[2], seg[3]))
				if new(big.Int).Add(new(big.Int).Add(st, up), n).Sign() >= 0 {
					continue
				}
				w.Report("C05", "authorisation", "waitlist-withdrawn", fmt.Sprintf("height %d: waitlist entry %s fell from %s to %q without a transaction of its owner", b.Height, d.Path, d.Old, d.New), b.Height)
				return
			}
		case "order":
			if seg[2] != "v0" && seg[2] != "v1" {
				continue
			}
			if n == nil || n.Sign() >= 0 {
				continue
			}
			ownerS := prev["order/"+seg[1]+"/owner"]
			if ownerS == "" {
				continue
			}
			if auth[types.HexToAddress(ownerS)] || expiryBlock || anyTrade {
				// fills, cancellations and expiry: priced and refunded exactly under C14
				m.classes["order-changed-with-cause"] = true
				continue
			}
			w.Report("C05", "authorisation", "order-changed", fmt.Sprintf("height %d: order %s of %s changed (%s: %s -> %q) in a block without any transaction or expiry", b.Height, seg[1], ownerS, seg[2], d.Old, d.New), b.Height)
			return
		case "cand":
			if len(seg) < 3 {
				continue
			}
			field := seg[2]
			if field == "total" || field == "jailed" {
				continue
			}
			o := types.HexToAddress(prev["cand/"+seg[1]+"/owner"])
			c := types.HexToAddress(prev["cand/"+seg[1]+"/control"])
			if d.Old == "" { // new candidate: the declaring transaction
				continue
			}
			if d.New == "" { // removed by ranking
				continue
			}
			if field == "status" {
				if auth[o] || auth[c] || hasEvidence || len(b.Req.Votes) > 0 {
					continue
				}
			} else if auth[o] {
				continue
			}
			w.Report("C05", "authorisation", "candidate-field:"+field, fmt.Sprintf("height %d: candidate %s %s changed from %q to %q although its owner %s signed nothing in this block", b.Height, seg[1], field, d.Old, d.New, o.String()), b.Height)
			return
		case "coin":
			if len(seg) < 3 || (seg[2] != "owner" && seg[2] != "symbol") || d.Old == "" {
				continue
			}
			if seg[2] == "owner" && !auth[types.HexToAddress(d.Old)] {
				w.Report("C05", "authorisation", "coin-owner", fmt.Sprintf("height %d: owner of coin %s changed from %s to %s without a transaction of the old owner", b.Height, seg[1], d.Old, d.New), b.Height)
				return
			}
		}
	}
	w.Probe("c05_block_checked")
}

// DeltaOf finds the numeric change of a path in a delta list (0 when unchanged).
func DeltaOf(ds []Delta, path string) *big.Int {
	for _, d := range ds {
		if d.Path == path {
			if n := d.Num(); n != nil {
				return n
			}
		}
	}
	return big.NewInt(0)
}

func init() {
	register(&PropSpec{ID: "C05", Level: "exploration",
		Rule: "adversarial signers over seeded histories: non-owner attempts at every owner-gated type, under-weight / duplicate / foreign / 33 multisig signatures, garbage, high-S and bad-V signatures, signatures by another key, check redemptions; per block the set of authorisers is computed by the harness from the keys it used; every balance decrease, stake / waitlist / order withdrawal, candidate-field and coin-owner change between consecutive cold exports must be explained by an authoriser or a protocol cause visible in the same block; distinct non-trivial case = distinct (tx kind, result code) pair plus explanation classes",
		Make: func(r *rand.Rand, seed int64, chain int, tier string) *Scenario {
			p := GeneralProfile()
			p.PBadSig, p.PMultisig, p.PDup = 0.1, 0.2, 0.05
			p.PEvidence, p.PAbsent = 0.03, 0.04
			for _, k := range []string{"editcand", "editcandcomm", "seton", "setoff", "mint", "editcoinowner", "recreatetoken", "remorder", "unbond", "move", "redeem", "addorder"} {
				p.W[k] = 7
			}
			return baseScenario("C05", r, seed, chain, tier, p, func(g *GenCfg, n *NodeCfg) {
				g.NMultisig = 1 + r.Intn(3)
			})
		},
		Monitors: func(sc *Scenario) []Monitor { return []Monitor{&MonC05{}} },
		Distinct: func(w *World) []string {
			out := distinctKindCodes(w)
			for _, m := range w.Monitors {
				if c, ok := m.(*MonC05); ok {
					for k := range c.classes {
						out = append(out, "explained:"+k)
					}
				}
			}
			return out
		},
		ExpectProbes: []string{"c05_block_checked", "c05_multisig_accepted", "c05_owner_gated_ok"},
	})
}
