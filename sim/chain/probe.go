package chain

import (
	"fmt"
	"github.com/MinterTeam/minter-go-node/coreV2/transaction"
	"github.com/MinterTeam/minter-go-node/rlp"
	"math/big"
	"reflect"
	"sort"
	"strings"

	"github.com/MinterTeam/minter-go-node/coreV2/types"
	abci "github.com/tendermint/tendermint/abci/types"
)

// Flatten turns an exported state into path -> value with semantic keys, so that two exports can be
// diffed entity by entity regardless of list order.
func Flatten(st *types.AppState) map[string]string {
	m := map[string]string{}
	for _, a := range st.Accounts {
		as := a.Address.String()
		if a.Nonce != 0 {
			m["nonce/"+as] = fmt.Sprint(a.Nonce)
		}
		if a.LockStakeUntilBlock != 0 {
			m["lockstake/"+as] = fmt.Sprint(a.LockStakeUntilBlock)
		}
		for _, b := range a.Balance {
			m[fmt.Sprintf("bal/%s/%d", as, b.Coin)] = b.Value
		}
		if a.MultisigData != nil {
			m["multisig/"+as] = fmt.Sprintf("%v/%d/%v", a.MultisigData.Weights, a.MultisigData.Threshold, a.MultisigData.Addresses)
		}
	}
	for _, c := range st.Coins {
		p := fmt.Sprintf("coin/%d/", c.ID)
		m[p+"volume"] = c.Volume
		m[p+"reserve"] = c.Reserve
		m[p+"max"] = c.MaxSupply
		m[p+"symbol"] = fmt.Sprintf("%s-%d", c.Symbol, c.Version)
		m[p+"crr"] = fmt.Sprint(c.Crr)
		if c.OwnerAddress != nil {
			m[p+"owner"] = c.OwnerAddress.String()
		}
		m[p+"flags"] = fmt.Sprintf("%v/%v/%s", c.Mintable, c.Burnable, c.Name)
	}
	for _, c := range st.Candidates {
		p := fmt.Sprintf("cand/%d/", c.ID)
		m[p+"pubkey"] = c.PubKey.String()
		m[p+"owner"] = c.OwnerAddress.String()
		m[p+"reward"] = c.RewardAddress.String()
		m[p+"control"] = c.ControlAddress.String()
		m[p+"commission"] = fmt.Sprintf("%d@%d", c.Commission, c.LastEditCommissionHeight)
		m[p+"status"] = fmt.Sprint(c.Status)
		m[p+"jailed"] = fmt.Sprint(c.JailedUntil)
		m[p+"total"] = c.TotalBipStake
		for _, s := range c.Stakes {
			k := fmt.Sprintf("stake/%d/%s/%d", c.ID, s.Owner.String(), s.Coin)
			m[k] = s.Value
			m["stakebip/"+k[6:]] = s.BipValue
		}
		// several updates of one (owner, coin) can coexist: sum them
		upd := map[string]*big.Int{}
		for _, s := range c.Updates {
			k := fmt.Sprintf("update/%d/%s/%d", c.ID, s.Owner.String(), s.Coin)
			if upd[k] == nil {
				upd[k] = new(big.Int)
			}
			if v := bi(s.Value); v != nil {
				upd[k].Add(upd[k], v)
			}
		}
		for k, v := range upd {
			m[k] = v.String()
		}
	}
	for _, d := range st.DeletedCandidates {
		m[fmt.Sprintf("deleted/%d", d.ID)] = d.PubKey.String()
	}
	for _, b := range st.BlockListCandidates {
		m["blocklist/"+b.String()] = "1"
	}
	for _, v := range st.Validators {
		p := "val/" + v.PubKey.String() + "/"
		m[p+"accum"] = v.AccumReward
		m[p+"total"] = v.TotalBipStake
		if v.AbsentTimes != nil {
			m[p+"absent"] = v.AbsentTimes.String()
		}
	}
	for _, w := range st.Waitlist {
		k := fmt.Sprintf("waitlist/%d/%s/%d", w.CandidateID, w.Owner.String(), w.Coin)
		addTo(m, k, w.Value)
	}
	for _, f := range st.FrozenFunds {
		ck := ""
		if f.CandidateKey != nil {
			ck = f.CandidateKey.String()
		}
		k := fmt.Sprintf("frozen/%d/%s/%d/%d/%s/%d", f.Height, f.Address.String(), f.Coin, f.CandidateID, ck, f.MoveToCandidateID)
		addTo(m, k, f.Value)
	}
	for _, p := range st.Pools {
		k := fmt.Sprintf("pool/%d-%d/", p.Coin0, p.Coin1)
		m[k+"id"] = fmt.Sprint(p.ID)
		m[k+"r0"] = p.Reserve0
		m[k+"r1"] = p.Reserve1
		for _, o := range p.Orders {
			ok := fmt.Sprintf("order/%d/", o.ID)
			m[ok+"pool"] = fmt.Sprintf("%d-%d/%v", p.Coin0, p.Coin1, o.IsSale)
			m[ok+"v0"] = o.Volume0
			m[ok+"v1"] = o.Volume1
			m[ok+"owner"] = o.Owner.String()
			m[ok+"height"] = fmt.Sprint(o.Height)
		}
	}
	m["next_order_id"] = fmt.Sprint(st.NextOrderID)
	for _, h := range st.HaltBlocks {
		m[fmt.Sprintf("halt/%d/%s", h.Height, h.CandidateKey)] = "1"
	}
	cv := reflect.ValueOf(st.Commission)
	for i := 0; i < cv.NumField(); i++ {
		m["commission/"+cv.Type().Field(i).Name] = fmt.Sprint(cv.Field(i).Interface())
	}
	for _, v := range st.CommissionVotes {
		key := fmt.Sprintf("commvote/%d/%x", v.Height, hashOf(fmt.Sprint(v.Commission)))
		ks := []string{}
		for _, pk := range v.Votes {
			ks = append(ks, pk.String())
		}
		sort.Strings(ks)
		m[key] = strings.Join(ks, ",")
	}
	for _, v := range st.UpdateVotes {
		ks := []string{}
		for _, pk := range v.Votes {
			ks = append(ks, pk.String())
		}
		sort.Strings(ks)
		m[fmt.Sprintf("updvote/%d/%s", v.Height, v.Version)] = strings.Join(ks, ",")
	}
	for _, c := range st.UsedChecks {
		m["usedcheck/"+string(c)] = "1"
	}
	m["max_gas"] = fmt.Sprint(st.MaxGas)
	m["slashed"] = st.TotalSlashed
	return m
}

func addTo(m map[string]string, k, v string) {
	if old, ok := m[k]; ok {
		a, b := bi(old), bi(v)
		if a != nil && b != nil {
			m[k] = new(big.Int).Add(a, b).String()
			return
		}
	}
	m[k] = v
}

func hashOf(s string) []byte {
	h := rlpHash([]interface{}{s})
	return h[:6]
}

// Delta is one changed path.
type Delta struct {
	Path     string
	Old, New string
}

// Num returns new-old when both parse as integers (missing = 0).
func (d Delta) Num() *big.Int {
	o, n := big.NewInt(0), big.NewInt(0)
	if d.Old != "" {
		o = bi(d.Old)
	}
	if d.New != "" {
		n = bi(d.New)
	}
	if o == nil || n == nil {
		return nil
	}
	return new(big.Int).Sub(n, o)
}

// DiffFlat lists the paths whose values differ, sorted.
func DiffFlat(a, b map[string]string) []Delta {
	var out []Delta
	for k, va := range a {
		if vb, ok := b[k]; !ok || vb != va {
			out = append(out, Delta{Path: k, Old: va, New: b[k]})
		}
	}
	for k, vb := range b {
		if _, ok := a[k]; !ok {
			out = append(out, Delta{Path: k, Old: "", New: vb})
		}
	}
	sort.Slice(out, func(i, j int) bool { return out[i].Path < out[j].Path })
	return out
}

func fmtDeltas(ds []Delta, max int) string {
	s := ""
	for i, d := range ds {
		if i >= max {
			s += fmt.Sprintf("... (%d more)", len(ds)-max)
			break
		}
		s += fmt.Sprintf("%s: %q -> %q; ", d.Path, d.Old, d.New)
	}
	return s
}

// ProbeResult is the counterfactual effect of one delivered transaction.
type ProbeResult struct {
	Meta   *TxMeta
	Resp   abci.ResponseDeliverTx
	Before *Snap // state after the block with the preceding transactions only
	After  *Snap // state after the block with this transaction appended
	Delta  []Delta
	Tags   map[string]string
	Height int64
	Index  int
	// Variant runs, on one more fresh node over the same pre-block disk, the block with the
	// preceding transactions and then alt instead of this transaction (through CheckTx first when
	// check is set). It returns the DeliverTx response of alt and the state after that block.
	Variant func(alt []byte, check bool) *VariantResult
}

// VariantResult is the outcome of a counterfactual variant of one transaction.
type VariantResult struct {
	Resp      abci.ResponseDeliverTx
	Tags      map[string]string
	After     *Snap
	CheckCode uint32
	Err       *CallErr // panic in CheckTx / DeliverTx / EndBlock / Commit of the variant block
	Phase     string
}

// Prober is implemented by oracles that judge per-transaction counterfactual diffs.
type Prober interface {
	Judge(w *World, b *BlockCtx, p *ProbeResult)
}

// MonProbe computes, for every transaction of blocks at attributable heights, the difference between
// two fresh nodes over the same pre-block disk: one executing the block with the transactions up to
// and including T, the other with the transactions before T only. Block-level effects cancel.
type MonProbe struct {
	NopMonitor
	Oracles     []Prober
	MaxPerBlock int
}

func (m *MonProbe) Genesis(w *World) { w.KeepDisks = true }

// attributable reports whether per-transaction diffs at this height are meaningful: payout /
// recalculation, price-update and order-expiry blocks feed fees into non-linear recomputation.
func attributable(w *World, h int64) bool {
	p := w.Sc.Node.Period
	r := uint64(h) % p
	return !(r == 0 || r == 1 || r == p/2)
}

func (m *MonProbe) AfterBlock(w *World, b *BlockCtx) {
	if len(b.Res.End.ValidatorUpdates) > 0 {
		return // stakes were recalculated in this block (dropped validator, key change): not attributable
	}
	if b.Cur == nil || len(b.Metas) == 0 || !attributable(w, b.Height) || b.Height == w.Sc.InitialH {
		// the first block is excluded: a fresh node over the genesis disk is "restarted before the
		// first committed block", which C09 does not cover (InitChain updates validators after its commit)
		return
	}
	before := w.DiskAt[b.Height-1]
	if before == nil {
		return
	}
	n := len(b.Metas)
	if m.MaxPerBlock > 0 && n > m.MaxPerBlock {
		n = m.MaxPerBlock
	}
	var prev *Snap
	for i := 0; i <= n; i++ {
		d := before.Clone()
		node, cerr := OpenNode(d, w.Sc.Node)
		if cerr != nil {
			w.InfraErr = fmt.Errorf("probe node: %v", cerr)
			return
		}
		req := b.Req
		req.Txs = b.Req.Txs[:i]
		res := node.ExecBlock(req, nil)
		node.Release()
		if res.Err != nil || res.Stopped {
			return // the main run did not fail here; prefix runs that do are C07/C09 business of other checks
		}
		if i > 0 && res.Deliver[i-1].Code != b.Res.Deliver[i-1].Code {
			w.Report("C09", "restart-equivalence", "probe-code", fmt.Sprintf("height %d tx %d (%s): a fresh node over the pre-block disk answers code %d, the running node %d", b.Height, i-1, b.Metas[i-1].Kind, res.Deliver[i-1].Code, b.Res.Deliver[i-1].Code), b.Height)
			return
		}
		ex, err := ColdExport(d, uint64(b.Height))
		if err != nil {
			w.InfraErr = fmt.Errorf("probe export: %v", err)
			return
		}
		cur := NewSnap(uint64(b.Height), ex)
		if i > 0 {
			pr := &ProbeResult{Meta: b.Metas[i-1], Resp: b.Res.Deliver[i-1], Before: prev, After: cur, Height: b.Height, Index: i - 1,
				Delta: DiffFlat(Flatten(&prev.Raw), Flatten(&cur.Raw)), Tags: map[string]string{}}
			for _, e := range pr.Resp.Events {
				for _, a := range e.Attributes {
					pr.Tags[string(a.Key)] = string(a.Value)
				}
			}
			idx := i - 1
			pr.Variant = func(alt []byte, check bool) *VariantResult {
				vd := before.Clone()
				vn, cerr := OpenNode(vd, w.Sc.Node)
				if cerr != nil {
					return nil
				}
				defer vn.Release()
				vr := &VariantResult{Tags: map[string]string{}}
				req := b.Req
				req.Txs = append(append([][]byte{}, b.Req.Txs[:idx]...), alt)
				hook := &TxHook{}
				if check {
					hook.Before = func(k int, tx []byte) {
						if k == idx && vr.Err == nil {
							rc, cerr := vn.Check(tx)
							vr.CheckCode, vr.Err = rc.Code, cerr
							if cerr != nil {
								vr.Phase = "CheckTx"
							}
						}
					}
				}
				res := vn.ExecBlock(req, hook)
				if vr.Err != nil {
					return vr
				}
				if res.Err != nil {
					vr.Err, vr.Phase = res.Err, res.Phase
					return vr
				}
				if res.Stopped || len(res.Deliver) <= idx {
					return nil
				}
				vr.Resp = res.Deliver[idx]
				for _, e := range vr.Resp.Events {
					for _, a := range e.Attributes {
						vr.Tags[string(a.Key)] = string(a.Value)
					}
				}
				if ex, err := ColdExport(vd, uint64(b.Height)); err == nil {
					vr.After = NewSnap(uint64(b.Height), ex)
				}
				w.Probe("probe_variant")
				return vr
			}
			w.Probe("probe_tx")
			for _, o := range m.Oracles {
				o.Judge(w, b, pr)
				if w.Viol != nil {
					return
				}
			}
		}
		prev = cur
	}
}

// Resign re-signs a single-signature transaction of one of the harness's own accounts after
// changing it (gas price, limits ...): the counterfactual variants of C15 / C27 / C13. Returns nil when
// the transaction is not a plainly signed one.
func Resign(m *TxMeta, nAcct int, mutate func(tx *transaction.Transaction) bool) []byte {
	if m.Garbage || m.Malleated || m.Dup || !m.SigOK || m.SigMode != 0 || len(m.Signers) != 1 || m.Signers[0] != m.Sender {
		return nil
	}
	var tx transaction.Transaction
	if err := rlp.DecodeBytes(m.Bytes, &tx); err != nil || tx.SignatureType != transaction.SigTypeSingle {
		return nil
	}
	for i := 0; i < nAcct+3; i++ {
		if Acct(i).Addr == m.Sender {
			if !mutate(&tx) {
				return nil
			}
			if err := tx.Sign(Acct(i).Priv); err != nil {
				return nil
			}
			out, err := rlp.EncodeToBytes(tx)
			if err != nil {
				return nil
			}
			return out
		}
	}
	return nil
}
