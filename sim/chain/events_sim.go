package chain

import (
	"bufio"
	"bytes"
	"crypto/sha256"
	"encoding/json"
	"fmt"
	"math/big"
	"math/rand"
	"os"
	"path/filepath"
	"reflect"
	"time"

	"chainsim/simdb"

	eventsdb "github.com/MinterTeam/minter-go-node/coreV2/events"
	"github.com/MinterTeam/minter-go-node/coreV2/types"
	tmjson "github.com/tendermint/tendermint/libs/json"
)

// C24 engine: the real events store over the simulated disk, driven by a seeded list of operations
// (add event, commit height, restart store, crash inside a commit followed by the replay of the same
// batch, load a height) against a reference map height -> events.

// EvOp is one operation of an events-store scenario.
type EvOp struct {
	K     string `json:"k"` // add | commit | restart | crash | load
	Kind  int    `json:"kind,omitempty"`
	Addr  int    `json:"addr,omitempty"`
	Key   int    `json:"key,omitempty"`
	Key2  int    `json:"key2,omitempty"`
	Coin  uint64 `json:"coin,omitempty"`
	Amt   string `json:"amt,omitempty"`
	Crash int    `json:"crash,omitempty"` // die before the k-th write of the commit
	Load  int    `json:"load,omitempty"`  // which earlier committed height to load (index from the end)
}

// EvScenario is the replay file of the C24 engine.
type EvScenario struct {
	Format int    `json:"format"`
	Prop   string `json:"property"`
	Seed   int64  `json:"seed"`
	Ops    []EvOp `json:"ops"`
	Expect string `json:"expect,omitempty"`
}

func evAddr(i int) types.Address {
	h := sha256.Sum256([]byte(fmt.Sprintf("ev-addr-%d", i)))
	var a types.Address
	copy(a[:], h[:20])
	return a
}

func evKey(i int) types.Pubkey {
	return types.Pubkey(sha256.Sum256([]byte(fmt.Sprintf("ev-key-%d", i))))
}

const evKinds = 12

func buildEvent(o EvOp) eventsdb.Event {
	a, k, k2 := evAddr(o.Addr), evKey(o.Key), evKey(o.Key2)
	switch o.Kind % evKinds {
	case 0:
		return &eventsdb.RewardEvent{Role: []string{"Validator", "Delegator", "DAO", "Developers"}[o.Key2%4], Address: a, Amount: o.Amt, ValidatorPubKey: k, ForCoin: o.Coin}
	case 1:
		return &eventsdb.SlashEvent{Address: a, Amount: o.Amt, Coin: o.Coin, ValidatorPubKey: k}
	case 2:
		return &eventsdb.JailEvent{ValidatorPubKey: k, JailedUntil: o.Coin + 5}
	case 3:
		return &eventsdb.UnbondEvent{Address: a, Amount: o.Amt, Coin: o.Coin, ValidatorPubKey: &k}
	case 4:
		return &eventsdb.UnlockEvent{Address: a, Amount: o.Amt, Coin: o.Coin}
	case 5:
		return &eventsdb.StakeMoveEvent{Address: a, Amount: o.Amt, Coin: o.Coin, CandidatePubKey: k, ToCandidatePubKey: k2}
	case 6:
		return &eventsdb.StakeKickEvent{Address: a, Amount: o.Amt, Coin: o.Coin, ValidatorPubKey: k}
	case 7:
		return &eventsdb.OrderExpiredEvent{ID: o.Coin, Address: a, Coin: o.Coin % 7, Amount: o.Amt}
	case 8:
		return &eventsdb.RemoveCandidateEvent{CandidatePubKey: k}
	case 9:
		return &eventsdb.UpdateNetworkEvent{Version: "v" + o.Amt}
	case 10:
		return &eventsdb.UpdatedBlockRewardEvent{Value: o.Amt, ValueLockedStakeRewards: o.Amt + "0"}
	default:
		// every price line gets its own value: a line stored or loaded under another line's name shows
		ev := &eventsdb.UpdateCommissionsEvent{Coin: o.Coin, Send: o.Amt, PayloadByte: "1", FailedTx: o.Amt}
		rv := reflect.ValueOf(ev).Elem()
		for i := 0; i < rv.NumField(); i++ {
			if f := rv.Field(i); f.Kind() == reflect.String && f.String() == "" {
				f.SetString(fmt.Sprintf("%s%03d", o.Amt, i))
			}
		}
		return ev
	}
}

func evJSON(evs eventsdb.Events) []byte {
	if len(evs) == 0 {
		return []byte("[]")
	}
	b, err := tmjson.Marshal(evs)
	if err != nil {
		return []byte("marshal error: " + err.Error())
	}
	return b
}

// evResult is the outcome of one scenario.
type evResult struct {
	Sig, Detail                               string
	Commits, Events, Restarts, Crashes, Loads int
	MaxKeys, MaxAddrs                         int
	Classes                                   map[string]bool
}

// RunEvScenario executes the operations and returns the first violation.
func RunEvScenario(sc *EvScenario) (res evResult) {
	res.Classes = map[string]bool{}
	disk := simdb.NewDisk()
	store := eventsdb.NewEventsStore(disk.Store("events"))
	ref := map[uint32]eventsdb.Events{}
	var heights []uint32
	var pending eventsdb.Events
	keys, addrs := map[int]bool{}, map[int]bool{}
	h := uint32(100)
	fail := func(key, detail string) { res.Sig, res.Detail = "C24/events-store/"+key, detail }
	guard := func(name string, f func()) (ok bool) {
		defer func() {
			if r := recover(); r != nil {
				if _, isCrash := r.(simdb.CrashSentinel); isCrash {
					ok = false
					return
				}
				fail("panic:"+name, fmt.Sprintf("%s panicked: %v", name, r))
				ok = false
			}
		}()
		f()
		return true
	}
	check := func(hh uint32, when string) bool {
		var got eventsdb.Events
		if !guard("LoadEvents", func() { got = store.LoadEvents(hh) }) {
			return false
		}
		want := ref[hh]
		gj, wj := evJSON(got), evJSON(want)
		if !bytes.Equal(gj, wj) {
			// find the first differing event for the class
			cls := "content"
			if len(got) != len(want) {
				cls = "count"
			}
			if len(keys) > 65535 {
				cls, when = "pubkey-id-overflow", "any"
			}
			fail("mismatch:"+cls+":"+when, fmt.Sprintf("events of height %d loaded %s differ from what was committed (%d distinct validator keys, %d distinct addresses so far): got %.400s want %.400s", hh, when, len(keys), len(addrs), gj, wj))
			return false
		}
		return true
	}
	for _, o := range sc.Ops {
		if res.Sig != "" {
			return
		}
		switch o.K {
		case "add":
			ev := buildEvent(o)
			pending = append(pending, ev)
			store.AddEvent(ev)
			res.Events++
			switch o.Kind % evKinds {
			case 0, 1, 2, 3, 6, 8:
				keys[o.Key] = true
			case 5:
				keys[o.Key], keys[o.Key2] = true, true
			}
			switch o.Kind % evKinds {
			case 0, 1, 3, 4, 5, 6, 7:
				addrs[o.Addr] = true
			}
			res.Classes[fmt.Sprintf("kind%d", o.Kind%evKinds)] = true
		case "commit":
			h++
			var err error
			if !guard("CommitEvents", func() { err = store.CommitEvents(h) }) {
				return
			}
			if err != nil {
				fail("commit-error", err.Error())
				return
			}
			ref[h] = pending
			pending = nil
			heights = append(heights, h)
			res.Commits++
			if !check(h, "right-after-commit") {
				return
			}
		case "crash":
			// die before the k-th write of this commit, restart, replay the same batch (what block replay does)
			h++
			disk.CrashAt(uint64(o.Crash))
			crashed := !guard("CommitEvents", func() { _ = store.CommitEvents(h) })
			if res.Sig != "" {
				return
			}
			disk.CrashAt(0)
			if crashed {
				res.Crashes++
				res.Classes["crash-in-commit"] = true
				disk = disk.Reopen()
				store = eventsdb.NewEventsStore(disk.Store("events"))
				for _, ev := range pending {
					store.AddEvent(ev)
				}
				var err error
				if !guard("CommitEvents(replay)", func() { err = store.CommitEvents(h) }) {
					return
				}
				if err != nil {
					fail("commit-error", err.Error())
					return
				}
			}
			ref[h] = pending
			pending = nil
			heights = append(heights, h)
			res.Commits++
			if !check(h, "after-crash-replay") {
				return
			}
		case "restart":
			disk = disk.Reopen()
			store = eventsdb.NewEventsStore(disk.Store("events"))
			for _, ev := range pending {
				store.AddEvent(ev) // events of the block in progress are re-created by re-execution
			}
			res.Restarts++
			res.Classes["restart"] = true
			if len(heights) > 0 {
				if !check(heights[len(heights)-1], "after-restart") {
					return
				}
			}
		case "load":
			if len(heights) == 0 {
				continue
			}
			hh := heights[len(heights)-1-o.Load%len(heights)]
			res.Loads++
			if !check(hh, "later") {
				return
			}
		}
		if len(keys) > res.MaxKeys {
			res.MaxKeys = len(keys)
		}
		if len(addrs) > res.MaxAddrs {
			res.MaxAddrs = len(addrs)
		}
	}
	// final sweep over a sample of all heights with a fresh store object
	disk = disk.Reopen()
	store = eventsdb.NewEventsStore(disk.Store("events"))
	step := 1
	if len(heights) > 200 {
		step = len(heights) / 200
	}
	for i := 0; i < len(heights); i += step {
		if !check(heights[i], "final-sweep") {
			return
		}
	}
	if res.MaxKeys > 65535 {
		res.Classes["more-than-65535-keys"] = true
	}
	if res.MaxKeys > 255 {
		res.Classes["more-than-255-keys"] = true
	}
	if res.MaxAddrs > 65535 {
		res.Classes["more-than-65535-addresses"] = true
	}
	return
}

// GenEvScenario draws an events-store scenario.
func GenEvScenario(r *rand.Rand, seed int64, tier string, large bool) *EvScenario {
	sc := &EvScenario{Format: 1, Prop: "C24", Seed: seed}
	nKeys := []int{1, 3, 40, 300, 2000}[r.Intn(5)]
	nAddrs := []int{1, 5, 100, 3000, 20000}[r.Intn(5)]
	commits := 20 + r.Intn(80)
	perCommit := 1 + r.Intn(12)
	if large {
		// many distinct keys and addresses: more than the 16-bit key table can number
		nKeys, nAddrs = 70000, 70000
		commits, perCommit = 160, 480
	}
	amt := func() string {
		// canonical decimal integers, as the node produces them (big.Int.String)
		return new(big.Int).Add(new(big.Int).Mul(big.NewInt(int64(r.Intn(1000000))), big.NewInt(1e18)), big.NewInt(r.Int63n(1e18))).String()
	}
	next := 0
	for c := 0; c < commits; c++ {
		n := r.Intn(perCommit + 1)
		if large {
			n = perCommit
		}
		for i := 0; i < n; i++ {
			o := EvOp{K: "add", Kind: r.Intn(evKinds), Addr: r.Intn(nAddrs), Key: r.Intn(nKeys), Key2: r.Intn(nKeys), Coin: uint64(r.Intn(2000)), Amt: amt()}
			if large {
				// walk through fresh keys / addresses so that the tables grow steadily
				o.Kind = []int{0, 1, 3, 5, 6, 2}[r.Intn(6)]
				o.Key, o.Key2, o.Addr = next%nKeys, next%nKeys, next%nAddrs
				next++
				if o.Kind == 5 {
					o.Key2 = next % nKeys
					next++
				}
			}
			sc.Ops = append(sc.Ops, o)
		}
		switch x := r.Intn(20); {
		case x < 3:
			sc.Ops = append(sc.Ops, EvOp{K: "crash", Crash: 1 + r.Intn(2*n+2)})
		default:
			sc.Ops = append(sc.Ops, EvOp{K: "commit"})
		}
		if r.Intn(6) == 0 {
			sc.Ops = append(sc.Ops, EvOp{K: "restart"})
		}
		if r.Intn(3) == 0 {
			sc.Ops = append(sc.Ops, EvOp{K: "load", Load: r.Intn(1000)})
		}
	}
	return sc
}

func shrinkEv(sc *EvScenario, sig string, budget time.Duration) *EvScenario {
	deadline := time.Now().Add(budget)
	best := sc
	run := func(c *EvScenario) bool { r := RunEvScenario(c); return r.Sig == sig }
	for chunk := len(best.Ops) / 2; chunk >= 1 && time.Now().Before(deadline); chunk /= 2 {
		for start := 0; start+chunk <= len(best.Ops) && time.Now().Before(deadline); {
			c := &EvScenario{Format: 1, Prop: "C24", Seed: best.Seed}
			c.Ops = append(append([]EvOp{}, best.Ops[:start]...), best.Ops[start+chunk:]...)
			if run(c) {
				best = c
			} else {
				start += chunk
			}
		}
	}
	return best
}

func c24Worker(a WorkerArgs) int {
	f, err := os.Create(a.Out)
	if err != nil {
		fmt.Fprintln(os.Stderr, err)
		return 2
	}
	defer f.Close()
	bw := bufio.NewWriter(f)
	defer bw.Flush()
	deadline := time.Now().Add(time.Duration(a.Budget * float64(time.Second)))
	seen := map[string]bool{}
	runs := 0
	for k := a.Offset; time.Now().Before(deadline); k += a.Stride {
		if a.MaxRuns > 0 && runs >= a.MaxRuns {
			break
		}
		runs++
		seed := SeedFor(a.Base, a.Prop, k)
		r := rand.New(rand.NewSource(seed))
		// one large-table run per worker in the thorough tier, one per batch (worker 0) in quick
		big := runs == 1 && (a.Tier == "thorough" || a.Offset == 0)
		t0 := time.Now()
		sc := GenEvScenario(r, seed, a.Tier, big)
		res := RunEvScenario(sc)
		rec := map[string]interface{}{"k": k, "seed": seed, "chain": a.Chain, "blocks": res.Commits, "planned": len(sc.Ops), "txs": res.Events, "accepted": res.Events,
			"faults": map[string]int{"store_restart": res.Restarts, "crash_in_event_commit": res.Crashes}, "probes": map[string]int{"c24_loads_compared": res.Loads + res.Commits, "c24_max_keys": res.MaxKeys, "c24_max_addresses": res.MaxAddrs},
			"sim_sec": 0, "hashes": res.Commits, "digest": fmt.Sprintf("%x", sha256.Sum256([]byte(res.Sig+fmt.Sprint(res.Commits, res.Events))))[:16]}
		var d []string
		for c := range res.Classes {
			d = append(d, c)
		}
		rec["distinct"] = d
		if runs <= 2 {
			ops := sc.Ops
			if len(ops) > 8 {
				ops = ops[:8]
			}
			s, _ := json.Marshal(map[string]interface{}{"seed": seed, "ops_total": len(sc.Ops), "first_ops": ops})
			rec["sample"] = json.RawMessage(s)
		}
		if res.Sig != "" {
			rec["sig"], rec["detail"] = res.Sig, res.Detail
			if IsKnown != nil && IsKnown(res.Sig) {
				rec["known"] = true
			} else if !seen[res.Sig] {
				seen[res.Sig] = true
				min := shrinkEv(sc, res.Sig, 60*time.Second)
				min.Expect = res.Sig
				os.MkdirAll(a.ReplayDir, 0o755)
				path := filepath.Join(a.ReplayDir, fmt.Sprintf("C24-%d.json", seed))
				b, _ := json.Marshal(min)
				os.WriteFile(path, b, 0o644)
				rec["replay"] = path
			}
		}
		rec["wall_ms"] = time.Since(t0).Milliseconds()
		b, _ := json.Marshal(rec)
		bw.Write(b)
		bw.WriteByte('\n')
		bw.Flush()
	}
	return 0
}

func c24Replay(file string, verbose bool) int {
	b, err := os.ReadFile(file)
	if err != nil {
		fmt.Fprintln(os.Stderr, err)
		return 2
	}
	var sc EvScenario
	if err := json.Unmarshal(b, &sc); err != nil {
		fmt.Fprintln(os.Stderr, err)
		return 2
	}
	res := RunEvScenario(&sc)
	if res.Sig == "" {
		fmt.Println("REPLAY-PASS no violation; commits", res.Commits)
		return 0
	}
	fmt.Printf("REPLAY-VIOLATION sig=%s\n", res.Sig)
	if verbose {
		fmt.Println(res.Detail)
	}
	if sc.Expect != "" && sc.Expect != res.Sig {
		return 3
	}
	return 1
}

func init() {
	register(&PropSpec{ID: "C24", Level: "exploration",
		Rule:         "the real events store over the simulated disk; seeded operation lists: add events of all 12 kinds with addresses / validator keys drawn from pools of 1..20000 (one run per batch walks through 70000 distinct keys and addresses), commit at increasing heights, restart the store object, die before the k-th write of a commit and replay the same batch after restart, load earlier heights; oracle: every load (right after commit, after restart, after crash replay, later, final sweep with a fresh store) returns exactly the committed list; distinct non-trivial case = distinct event kind / fault class / table-size class exercised",
		Worker:       c24Worker,
		Replay:       c24Replay,
		ExpectProbes: []string{"c24_loads_compared"},
		Assumptions:  []string{"in-chain agreement of stored events between restarted / crashed / reference nodes is decided by C09 and C10 (DiskStateDiff compares LoadEvents of both disks)"},
	})
}
