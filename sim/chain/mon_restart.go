package chain

import (
	"github.com/MinterTeam/minter-go-node/coreV2/state/swap"
	"bytes"
	"encoding/hex"
	"encoding/json"
	"fmt"
	"github.com/MinterTeam/minter-go-node/coreV2/types"
	"math/big"
	"math/rand"
	"sort"

	"chainsim/simdb"

	eventsdb "github.com/MinterTeam/minter-go-node/coreV2/events"
	abci "github.com/tendermint/tendermint/abci/types"
	tmjson "github.com/tendermint/tendermint/libs/json"
)

// Twin is a second full node fed the same requests as the main node.
type Twin struct {
	Disk *simdb.Disk
	Node *Node
	Cfg  NodeCfg
}

// NewTwinFromGenesis builds a fresh node from the scenario's genesis.
func NewTwinFromGenesis(w *World) (*Twin, *CallErr) {
	t := &Twin{Disk: simdb.NewDisk(), Cfg: w.Sc.Node}
	n, cerr := OpenNode(t.Disk, t.Cfg)
	if cerr != nil {
		return nil, cerr
	}
	t.Node = n
	_, cerr = n.InitChain(w.Sc.Genesis, w.Sc.InitialH, InitialValidators(&w.GenesisState), w.TM.Now)
	return t, cerr
}

// Restart performs a clean stop and a new process start over the same disk.
func (t *Twin) Restart() *CallErr {
	t.Node.Close()
	t.Disk = t.Disk.Reopen()
	n, cerr := OpenNode(t.Disk, t.Cfg)
	t.Node = n
	return cerr
}

func respDiff(a, b abci.ResponseDeliverTx) string {
	if a.Code != b.Code {
		return fmt.Sprintf("code %d vs %d (log %q vs %q)", a.Code, b.Code, a.Log, b.Log)
	}
	if !bytes.Equal(a.Data, b.Data) || a.GasWanted != b.GasWanted || a.GasUsed != b.GasUsed {
		return "data/gas differ"
	}
	ab, _ := a.Marshal()
	bb, _ := b.Marshal()
	if !bytes.Equal(ab, bb) {
		// find the first differing tag
		ea, eb := flatTags(a), flatTags(b)
		for i := 0; i < len(ea) && i < len(eb); i++ {
			if ea[i] != eb[i] {
				return fmt.Sprintf("tag %s vs %s", ea[i], eb[i])
			}
		}
		if len(ea) != len(eb) {
			return fmt.Sprintf("%d vs %d tags", len(ea), len(eb))
		}
		return fmt.Sprintf("log/info differ: %q vs %q", a.Log, b.Log)
	}
	return ""
}

func flatTags(r abci.ResponseDeliverTx) []string {
	var out []string
	for _, e := range r.Events {
		for _, a := range e.Attributes {
			out = append(out, string(a.Key)+"="+string(a.Value))
		}
	}
	return out
}

func tagKey(s string) string {
	for i := 0; i < len(s); i++ {
		if s[i] == '=' {
			return s[:i]
		}
	}
	return s
}

// CompareBlock compares everything a block returned on two nodes; returns (class, detail).
func CompareBlock(ref, sub *BlockRes) (string, string) {
	if (ref.Err == nil) != (sub.Err == nil) {
		return "panic-divergence", fmt.Sprintf("ref err %v, subject err %v", ref.Err, sub.Err)
	}
	if sub.Err != nil {
		return "", ""
	}
	if ref.Stopped != sub.Stopped {
		return "stop-divergence", fmt.Sprintf("ref stopped %v subject stopped %v", ref.Stopped, sub.Stopped)
	}
	if len(ref.Deliver) != len(sub.Deliver) {
		return "deliver-count", fmt.Sprintf("%d vs %d deliveries", len(ref.Deliver), len(sub.Deliver))
	}
	for i := range ref.Deliver {
		if d := respDiff(ref.Deliver[i], sub.Deliver[i]); d != "" {
			return "deliver-response", fmt.Sprintf("tx %d: %s", i, d)
		}
	}
	eb1, _ := ref.End.Marshal()
	eb2, _ := sub.End.Marshal()
	if !bytes.Equal(eb1, eb2) {
		return "endblock-response", fmt.Sprintf("validator updates %s vs %s, params %v vs %v", fmtUpdates(ref.End.ValidatorUpdates), fmtUpdates(sub.End.ValidatorUpdates), ref.End.ConsensusParamUpdates, sub.End.ConsensusParamUpdates)
	}
	if !bytes.Equal(ref.Hash, sub.Hash) {
		return "app-hash", fmt.Sprintf("%x vs %x", ref.Hash, sub.Hash)
	}
	return "", ""
}

// DiskStateDiff compares the queryable durable state of two disks at height h: export, emission,
// versions, validators, price record, block times, events of the given heights.
func DiskStateDiff(a, b *simdb.Disk, h uint64, eventHeights []uint64, withEvents bool) (string, string) {
	ea, err1 := ColdExport(a, h)
	eb, err2 := ColdExport(b, h)
	if (err1 == nil) != (err2 == nil) {
		return "export-availability", fmt.Sprintf("export at %d: %v vs %v", h, err1, err2)
	}
	if err1 == nil {
		ja, _ := json.Marshal(ea)
		jb, _ := json.Marshal(eb)
		if !bytes.Equal(ja, jb) {
			return "export", "exports differ at " + firstJSONDiff(ja, jb)
		}
	}
	da, db := ColdAppDB(a), ColdAppDB(b)
	if x, y := da.Emission(), db.Emission(); (x == nil) != (y == nil) || (x != nil && x.Cmp(y) != 0) {
		return "emission", fmt.Sprintf("persisted emission %v vs %v", x, y)
	}
	va, _ := json.Marshal(da.GetVersions())
	vb, _ := json.Marshal(db.GetVersions())
	if !bytes.Equal(va, vb) {
		return "versions", fmt.Sprintf("%s vs %s", va, vb)
	}
	la, _ := tmjson.Marshal(da.GetValidators())
	lb, _ := tmjson.Marshal(db.GetValidators())
	if !bytes.Equal(la, lb) {
		return "validators", fmt.Sprintf("persisted validators %s vs %s", la, lb)
	}
	t1, r10, r11, l1, o1 := da.GetPrice()
	t2, r20, r21, l2, o2 := db.GetPrice()
	if !t1.Equal(t2) || cmpNil(r10, r20) || cmpNil(r11, r21) || cmpNil(l1, l2) || o1 != o2 {
		return "price", fmt.Sprintf("price record (%v %v %v %v %v) vs (%v %v %v %v %v)", t1, r10, r11, l1, o1, t2, r20, r21, l2, o2)
	}
	if da.GetLastHeight() != db.GetLastHeight() || !bytes.Equal(da.GetLastBlockHash(), db.GetLastBlockHash()) || da.GetStartHeight() != db.GetStartHeight() {
		return "height-hash", fmt.Sprintf("height %d/%d hash %x/%x", da.GetLastHeight(), db.GetLastHeight(), da.GetLastBlockHash(), db.GetLastBlockHash())
	}
	s1, c1 := da.GetLastBlockTimeDelta()
	s2, c2 := db.GetLastBlockTimeDelta()
	if s1 != s2 || c1 != c2 {
		return "block-times", fmt.Sprintf("block time delta %d/%d vs %d/%d", s1, c1, s2, c2)
	}
	if withEvents {
		sa, sb := eventsdb.NewEventsStore(a.Store("events")), eventsdb.NewEventsStore(b.Store("events"))
		load := func(st eventsdb.IEventsDB, h uint64) (out []byte, perr string) {
			defer func() {
				if r := recover(); r != nil {
					perr = fmt.Sprint(r)
				}
			}()
			out, _ = tmjson.Marshal(st.LoadEvents(uint32(h)))
			return
		}
		for _, eh := range eventHeights {
			x, px := load(sa, eh)
			y, py := load(sb, eh)
			if px != "" || py != "" {
				// stored events that cannot be loaded back are a durable-state difference, not a harness problem
				return "events-unloadable", fmt.Sprintf("loading the stored events of height %d panics: reference %q, subject %q", eh, px, py)
			}
			if !bytes.Equal(x, y) {
				return "events", fmt.Sprintf("events of height %d differ: %.300s vs %.300s", eh, x, y)
			}
		}
	}
	return "", ""
}

func cmpNil(a, b *big.Int) bool {
	if (a == nil) != (b == nil) {
		return true
	}
	return a != nil && a.Cmp(b) != 0
}

func firstJSONDiff(a, b []byte) string {
	n := len(a)
	if len(b) < n {
		n = len(b)
	}
	i := 0
	for i < n && a[i] == b[i] {
		i++
	}
	lo := i - 120
	if lo < 0 {
		lo = 0
	}
	ha, hb := i+80, i+80
	if ha > len(a) {
		ha = len(a)
	}
	if hb > len(b) {
		hb = len(b)
	}
	return fmt.Sprintf("byte %d: ...%s | vs | ...%s", i, a[lo:ha], b[lo:hb])
}

// exportFieldOfDiff names the top-level export field in which two exports first differ.
func exportFieldOfDiff(detail string) string { return "state" }

// HotColdDiff compares the live read interface the API uses on the current state with the cold export.
func HotColdDiff(n *Node, s *Snap) (string, string) {
	cs := n.App.CurrentState()
	if cs == nil {
		return "hot-no-state", "the node has no current state to serve reads from (nil check state)"
	}
	for _, a := range s.Accounts {
		if got := cs.Accounts().GetNonce(a); got != s.Nonce[a] {
			return "hot-nonce", fmt.Sprintf("nonce of %s hot %d cold %d", a.String(), got, s.Nonce[a])
		}
		ids := make([]uint64, 0)
		for id := range s.Bal[a] {
			ids = append(ids, id)
		}
		sort.Slice(ids, func(i, j int) bool { return ids[i] < ids[j] })
		for _, id := range ids {
			if got := cs.Accounts().GetBalance(a, coinID(id)); got.Cmp(s.Bal[a][id]) != 0 {
				return "hot-balance", fmt.Sprintf("balance of %s coin %d hot %s cold %s", a.String(), id, got, s.Bal[a][id])
			}
		}
	}
	for _, c := range s.Cands {
		hc := cs.Candidates().GetCandidate(c.PubKey)
		if hc == nil {
			return "hot-candidate", fmt.Sprintf("candidate %s missing in live state", c.PubKey)
		}
		if uint64(hc.Status) != c.Status || hc.GetTotalBipStake().String() != c.TotalBipStake {
			return "hot-candidate", fmt.Sprintf("candidate %d hot status %d total %s, cold status %d total %s", c.ID, hc.Status, hc.GetTotalBipStake(), c.Status, c.TotalBipStake)
		}
	}
	for _, c := range s.Cands {
		for _, st := range c.Stakes {
			if got := cs.Candidates().GetStakeValueOfAddress(c.PubKey, st.Owner, coinID(st.Coin)); got == nil || got.String() != st.Value {
				return "hot-stake", fmt.Sprintf("stake of %s at candidate %d coin %d: hot %v cold %s", st.Owner.String(), c.ID, st.Coin, got, st.Value)
			}
		}
	}
	for _, wl := range s.Raw.Waitlist {
		var pk types.Pubkey
		found := false
		for _, c := range s.Cands {
			if c.ID == wl.CandidateID {
				pk, found = c.PubKey, true
			}
		}
		if !found {
			continue
		}
		it := cs.WaitList().Get(wl.Owner, pk, coinID(wl.Coin))
		if it == nil || it.Value == nil || it.Value.String() != wl.Value {
			got := "nothing"
			if it != nil && it.Value != nil {
				got = it.Value.String()
			}
			return "hot-waitlist", fmt.Sprintf("waitlist entry of %s at candidate %d coin %d: hot %s cold %s", wl.Owner.String(), wl.CandidateID, wl.Coin, got, wl.Value)
		}
	}
	for _, id := range s.CoinIDs {
		c := s.Coins[id]
		if c.Version != 0 {
			continue
		}
		hc := cs.Coins().GetCoin(coinID(id))
		if hc == nil {
			return "hot-coin", fmt.Sprintf("coin %d missing in live state", id)
		}
		if hc.Volume().String() != c.Volume || (c.Crr > 0 && hc.Reserve().String() != c.Reserve) {
			return "hot-coin", fmt.Sprintf("coin %d hot volume %s reserve %s, cold volume %s reserve %s", id, hc.Volume(), hc.Reserve(), c.Volume, c.Reserve)
		}
	}
	if hp := cs.Commission().GetCommissions(); hp != nil {
		cc := s.Raw.Commission
		for _, f := range []struct {
			name string
			hot  *big.Int
			cold string
		}{{"send", hp.Send, cc.Send}, {"payload_byte", hp.PayloadByte, cc.PayloadByte}, {"delegate", hp.Delegate, cc.Delegate}, {"unbond", hp.Unbond, cc.Unbond},
			{"buy_bancor", hp.BuyBancor, cc.BuyBancor}, {"sell_bancor", hp.SellBancor, cc.SellBancor}, {"failed_tx", hp.FailedTx, cc.FailedTx},
			{"add_limit_order", hp.AddLimitOrder, cc.AddLimitOrder}, {"declare_candidacy", hp.DeclareCandidacy, cc.DeclareCandidacy}, {"set_candidate_on", hp.SetCandidateOn, cc.SetCandidateOn},
			{"edit_candidate", hp.EditCandidate, cc.EditCandidate}, {"create_multisig", hp.CreateMultisig, cc.CreateMultisig}, {"lock", hp.Lock, cc.Lock}, {"redeem_check", hp.RedeemCheck, cc.RedeemCheck}} {
			if f.hot != nil && f.cold != "" && f.hot.String() != f.cold {
				return "hot-commission", fmt.Sprintf("price table entry %s: hot %s cold %s", f.name, f.hot, f.cold)
			}
		}
	}
	for _, p := range s.Pools {
		r0, r1 := cs.Swap().GetSwapper(coinID(p.Coin0), coinID(p.Coin1)).Reserves()
		if r0.String() != p.Reserve0 || r1.String() != p.Reserve1 {
			return "hot-pool", fmt.Sprintf("pool %d hot %s/%s cold %s/%s", p.ID, r0, r1, p.Reserve0, p.Reserve1)
		}
	}
	return "", ""
}

// MonC09: a subject twin with restarts must behave exactly like the never-restarted main node.
type MonC09 struct {
	NopMonitor
	sub          *Twin
	restarts     int
	lastRestartH int64
	classes      map[string]bool
	heights      []uint64
	dead         bool
}

func (m *MonC09) Genesis(w *World) {
	t, cerr := NewTwinFromGenesis(w)
	if cerr != nil {
		w.InfraErr = fmt.Errorf("twin genesis: %v", cerr)
		return
	}
	m.sub = t
	m.classes = map[string]bool{}
}

func (m *MonC09) report(w *World, class, detail string, h int64) {
	w.Report("C09", "restart-equivalence", c09class(w, class), fmt.Sprintf("after %d restart(s), last at height %d, block %d: %s", m.restarts, m.lastRestartH, h, detail), h)
}

func (m *MonC09) AfterBlock(w *World, b *BlockCtx) {
	if m.sub == nil || m.dead || b.Res.Stopped {
		return
	}
	if b.Op.Restart && len(m.heights) > 0 { // only after at least one committed block (C09's statement)
		if cerr := m.sub.Restart(); cerr != nil {
			w.Report("C07", "no-panic", "restart:"+cerr.Call+"@"+cerr.Site, "node failed to start after a clean stop: "+cerr.Error()+"\n"+trimStack(cerr.Stack), b.Height)
			m.dead = true
			return
		}
		m.restarts++
		m.lastRestartH = b.Height - 1
		w.Fault("restart")
		cls := fmt.Sprintf("phase%d/n%d", uint64(b.Height-1)%w.Sc.Node.Period, min(m.restarts, 3))
		m.classes[cls] = true
		h, hash, cerr := m.sub.Node.Info()
		if cerr != nil {
			w.Report("C07", "no-panic", "Info@"+cerr.Site, cerr.Error(), b.Height)
			return
		}
		if h != b.Height-1 || (b.Height-1 >= w.Sc.InitialH && !bytes.Equal(hash, w.prevHash())) {
			m.report(w, "info", fmt.Sprintf("Info after restart reports height %d hash %x, expected %d %x", h, hash, b.Height-1, w.prevHash()), b.Height)
			return
		}
		// a restarted node's live reads must equal the disk
		if cls, d := HotColdDiff(m.sub.Node, b.Prev); cls != "" {
			m.report(w, cls, "right after restart: "+d, b.Height)
			return
		}
	}
	res := m.sub.Node.ExecBlock(b.Req, nil)
	if res.Err != nil && res.Err.Crash {
		w.InfraErr = fmt.Errorf("unexpected crash sentinel")
		return
	}
	if cls, d := CompareBlock(&b.Res, &res); cls != "" {
		if cls == "app-hash" {
			if c2, d2 := DiskStateDiff(w.Disk, m.sub.Disk, uint64(b.Height), []uint64{uint64(b.Height)}, !w.Sc.Node.ValidatorMode); c2 != "" {
				d += "; first durable difference: " + c2 + ": " + d2
			}
		}
		m.report(w, cls, d, b.Height)
		return
	}
	if res.Err != nil {
		m.dead = true
		return
	}
	m.heights = append(m.heights, uint64(b.Height))
	w.Probe("c09_block_compared")
	// deep comparison right after the first blocks following a restart, and periodically
	since := b.Height - m.lastRestartH
	if m.restarts > 0 && (since <= 2 || uint64(b.Height)%w.Sc.Node.Period <= 1) {
		m.deep(w, b)
	}
}

func (m *MonC09) deep(w *World, b *BlockCtx) {
	evh := m.heights
	if len(evh) > 6 {
		evh = evh[len(evh)-6:]
	}
	if cls, d := DiskStateDiff(w.Disk, m.sub.Disk, uint64(b.Height), evh, !w.Sc.Node.ValidatorMode); cls != "" {
		m.report(w, "disk-"+cls, d, b.Height)
		return
	}
	if x, y := w.Node.App.GetEmission(), m.sub.Node.App.GetEmission(); x.Cmp(y) != 0 {
		m.report(w, "emission-query", fmt.Sprintf("GetEmission %s vs %s", x, y), b.Height)
		return
	}
	if cls, d := HotColdDiff(m.sub.Node, b.Cur); cls != "" {
		m.report(w, cls, d, b.Height)
		return
	}
	w.Probe("c09_deep_compare")
}

func (m *MonC09) Finish(w *World) {
	if m.sub == nil || m.dead || w.Prev == nil || len(m.heights) == 0 || int64(m.heights[len(m.heights)-1]) != w.LastCommitted || int64(w.Prev.Height) != w.LastCommitted {
		return // the run was cut short after the main node committed a block the subject never saw
	}
	if cls, d := DiskStateDiff(w.Disk, m.sub.Disk, w.Prev.Height, m.heights, !w.Sc.Node.ValidatorMode); cls != "" {
		m.report(w, "disk-"+cls, "at end of run: "+d, int64(w.Prev.Height))
	}
	m.sub.Node.Release()
}

func (w *World) prevHash() []byte { return w.prevCommitted }

func min(a, b int) int {
	if a < b {
		return a
	}
	return b
}

func hexs(b []byte) string { return hex.EncodeToString(b) }

func init() {
	register(&PropSpec{ID: "C09", Level: "exploration",
		Rule: "twin nodes fed identical blocks; the subject is cleanly stopped and restarted from its simulated disk at seeded block boundaries (single, repeated, back-to-back, around payout/expiry/price-update blocks, with pruning keepLastStates in {0,1,5,120}); oracle: Info after restart, every later response and app hash, durable state (export, emission, versions, validators, price, block times, events) and live reads equal the never-restarted reference; distinct non-trivial case = distinct (restart phase within the stake period, restart ordinal) class",
		Make: func(r *rand.Rand, seed int64, chain int, tier string) *Scenario {
			flavour := r.Intn(5)
			p := flavourProfile(flavour)
			p.PRestart = 0.06
			p.PClockJump = 0.08
			fullSlots := false
			sc := baseScenario("C09", r, seed, chain, tier, p, func(g *GenCfg, n *NodeCfg) {
				if r.Intn(4) == 0 {
					n.ValidatorMode = true
				}
				flavourGen(r, flavour, g, n)
				// some chains start at height 1 (Tendermint's default initial height)
				if chain == 2 && r.Intn(8) == 0 {
					g.InitialH = 1
				}
				if flavour == 2 && r.Intn(3) == 0 {
					// a candidate whose 1000 delegation slots are (almost) full: small stakes are kicked to the
					// waitlist at every recalculation, repeatedly for the same owners
					fullSlots = true
					g.ManyDeleg = 994 + r.Intn(6)
					n.Period = 6
				}
			})
			if fullSlots && len(sc.Blocks) > 30 {
				sc.Blocks = sc.Blocks[:30]
			}
			if flavour == 3 {
				steerPriceWindow(r, sc, false)
			}
			// a share of the runs enumerates every restart point (and, thorough, every pair) of a short history
			// (not with the full-slot candidate: every enumerated restart reloads its thousand stakes)
			if !fullSlots && r.Intn(5) == 0 {
				sc.Params = map[string]int64{"c09_enum": 1}
				n := 14 + r.Intn(14)
				if tier == "thorough" {
					n = 24 + r.Intn(16)
					sc.Params["c09_pairs"] = 1
				}
				if len(sc.Blocks) > n {
					sc.Blocks = sc.Blocks[:n]
				}
				for i := range sc.Blocks {
					sc.Blocks[i].Restart = false
				}
				return sc
			}
			// bias: back-to-back restarts and restart right after blocks that create in-flight state
			sc.Blocks[0].Restart = false
			for i := range sc.Blocks {
				if sc.Blocks[i].Restart && i+1 < len(sc.Blocks) && r.Intn(3) == 0 {
					sc.Blocks[i+1].Restart = true
				}
				if i > 0 && uint64(sc.InitialH+int64(i))%sc.Node.Period <= 1 && r.Intn(4) == 0 {
					sc.Blocks[i].Restart = true
				}
			}
			return sc
		},
		Monitors: func(sc *Scenario) []Monitor {
			if sc.Params["c09_enum"] == 1 {
				return []Monitor{&MonC09Enum{Pairs: sc.Params["c09_pairs"] == 1}}
			}
			return []Monitor{&MonC09{}}
		},
		Distinct: func(w *World) []string {
			var out []string
			for _, m := range w.Monitors {
				if c, ok := m.(*MonC09); ok {
					for k := range c.classes {
						out = append(out, k)
					}
				}
				if c, ok := m.(*MonC09Enum); ok {
					for k := range c.classes {
						out = append(out, "enum/"+k)
					}
				}
			}
			return out
		},
		ExpectProbes: []string{"c09_block_compared", "c09_deep_compare", "c09_enumerated_restart_schedule"},
	})
}

// MonC09Enum (thorough tier): on a short reference history every single restart point and every pair of
// restart points is executed: a fresh node over the reference's disk of height i continues to j, is
// restarted again and continues to the end; every block must match the reference and the durable state
// at the end must be equal.
type MonC09Enum struct {
	NopMonitor
	classes map[string]bool
	Pairs   bool
}

func (m *MonC09Enum) Genesis(w *World) {
	w.KeepLogs, w.KeepDisks = true, true
	m.classes = map[string]bool{}
}

func (m *MonC09Enum) runFrom(w *World, i, j int) bool {
	n := len(w.ReqLog)
	hi := w.ReqLog[i].Height // restart after block i (height hi)
	t := &Twin{Disk: w.DiskAt[hi].Clone(), Cfg: w.Sc.Node}
	node, cerr := OpenNode(t.Disk, t.Cfg)
	if cerr != nil {
		w.Report("C07", "no-panic", "restart:"+cerr.Call+"@"+cerr.Site, cerr.Error(), hi)
		return false
	}
	t.Node = node
	defer func() { t.Node.Release() }()
	restarts := 1
	for k := i + 1; k < n; k++ {
		if k == j+1 && j > i {
			if cerr := t.Restart(); cerr != nil {
				w.Report("C07", "no-panic", "restart:"+cerr.Call+"@"+cerr.Site, cerr.Error(), w.ReqLog[k].Height)
				return false
			}
			restarts = 2
		}
		res := t.Node.ExecBlock(w.ReqLog[k], nil)
		if cls, d := CompareBlock(&w.ResLog[k], &res); cls != "" {
			w.Sc.Params["c09_i"], w.Sc.Params["c09_j"] = int64(i), int64(j)
			w.Report("C09", "restart-equivalence", c09class(w, cls), fmt.Sprintf("enumeration: restart after block %d%s, block %d: %s", hi, secondRestart(w, i, j), w.ReqLog[k].Height, d), w.ReqLog[k].Height)
			return false
		}
	}
	last := w.ReqLog[n-1].Height
	var evh []uint64
	for k := i + 1; k < n; k++ {
		evh = append(evh, uint64(w.ReqLog[k].Height))
	}
	if ref := w.DiskAt[last]; ref != nil {
		if cls, d := DiskStateDiff(ref, t.Disk, uint64(last), evh, !w.Sc.Node.ValidatorMode); cls != "" {
			w.Sc.Params["c09_i"], w.Sc.Params["c09_j"] = int64(i), int64(j)
			w.Report("C09", "restart-equivalence", c09class(w, "disk-"+cls), fmt.Sprintf("enumeration: restart after block %d%s, at the end (height %d): %s", hi, secondRestart(w, i, j), last, d), last)
			return false
		}
	}
	m.classes[fmt.Sprintf("phase%d/n%d", uint64(hi)%w.Sc.Node.Period, restarts)] = true
	w.Probe("c09_enumerated_restart_schedule")
	w.Fault("restart")
	return true
}

func secondRestart(w *World, i, j int) string {
	if j > i {
		return fmt.Sprintf(" and again after block %d", w.ReqLog[j].Height)
	}
	return ""
}

func (m *MonC09Enum) Finish(w *World) {
	n := len(w.ReqLog)
	if n < 3 {
		return
	}
	if w.Sc.Params == nil {
		w.Sc.Params = map[string]int64{}
	}
	if pi, ok := w.Sc.Params["c09_i"]; ok { // replay of one schedule
		pj := w.Sc.Params["c09_j"]
		if pi >= 0 && int(pi) < n-1 && int(pj) < n-1 {
			if !m.runFrom(w, int(pi), int(pj)) {
				return
			}
		}
		// a shrunk history moved the indices: enumerate again
		delete(w.Sc.Params, "c09_i")
		delete(w.Sc.Params, "c09_j")
	}
	for i := 0; i < n-1; i++ {
		if !m.runFrom(w, i, -1) {
			return
		}
	}
	if m.Pairs {
		// every pair on short histories; on longer ones a seeded sample of about 250 pairs (a run must end
		// well inside the worker's watchdog also on a loaded machine)
		total := (n - 2) * (n - 1) / 2
		r := rand.New(rand.NewSource(w.Sc.Seed ^ 0x9a125))
		for i := 0; i < n-2; i++ {
			for j := i + 1; j < n-1; j++ {
				if total > 250 && r.Intn(total) >= 250 {
					continue
				}
				if !m.runFrom(w, i, j) {
					return
				}
			}
		}
	}
}

// flavourProfile / flavourGen: workload flavours shared by the restart and crash checks (swarm style):
// 0, 4 general; 1 order books and pools; 2 staking; 3 reward price updates (clock steered, BIP/USDT trades).
func flavourProfile(flavour int) Profile {
	switch flavour {
	case 1:
		p := PoolProfile(true)
		p.PAbsent, p.PEvidence = 0.02, 0.01
		return p
	case 2:
		return StakeProfile()
	case 3:
		p := GeneralProfile()
		p.W["sellusdt"], p.W["sellbip"] = 14, 14
		p.TxMax = 5
		return p
	}
	return GeneralProfile()
}

func flavourGen(r *rand.Rand, flavour int, g *GenCfg, n *NodeCfg) {
	switch flavour {
	case 1:
		g.NPool = 2 + r.Intn(3)
		g.NToken = 2 + r.Intn(3)
		n.ExpirePeriod = uint64(4 + r.Intn(14))
	case 2:
		g.Frozen = 4 + r.Intn(8)
		g.NCand = 2 + r.Intn(4)
	case 3:
		g.OldRules = false
		n.Period = []uint64{6, 6, 8, 12}[r.Intn(4)]
	}
}

// c09class marks divergences seen on a chain whose genesis starts at height 1: there the tree version
// of height h is h+1 and the application DB's start height 0 cannot be told from "no chain yet", so a
// restarted node has no state until the next BeginBlock and then loads the state of height h-1 (a
// listed known finding). Every other chain keeps the plain class.
func c09class(w *World, class string) string {
	if w.Sc.InitialH == 1 {
		return "initial-height-1:" + class
	}
	return class
}

// MonHotCold: after every commit the live read interface (the state object block execution and the API
// share) must show exactly what was committed: anything else is state that exists only in memory and
// would be gone - or different - after a restart.
type MonHotCold struct{ NopMonitor }

func (MonHotCold) AfterBlock(w *World, b *BlockCtx) {
	if b.Cur == nil || w.Viol != nil || w.Node == nil || w.Node.Dead {
		return
	}
	if cls, d := HotColdDiff(w.Node, b.Cur); cls != "" {
		w.Report("C09", "restart-equivalence", c09class(w, cls), fmt.Sprintf("height %d, no restart at all: the running node's live state differs from what it committed: %s", b.Height, d), b.Height)
		return
	}
	// the live order books list exactly the committed orders
	if cs := w.Node.App.CurrentState(); cs != nil {
		for _, p := range b.Cur.Pools {
			if len(p.Orders) == 0 {
				continue
			}
			want := map[uint64]bool{}
			for _, o := range p.Orders {
				want[o.ID] = true
			}
			sw := cs.Swap().GetSwapper(coinID(p.Coin0), coinID(p.Coin1))
			seen := map[uint64]bool{}
			for _, side := range []swap.EditableChecker{sw, sw.Reverse()} {
				for _, l := range side.OrdersSell(10000) {
					if l != nil {
						seen[uint64(l.ID())] = true
					}
				}
			}
			for id := range want {
				if !seen[id] {
					w.Report("C09", "restart-equivalence", c09class(w, "hot-orders"), fmt.Sprintf("height %d, no restart at all: order %d of pool %d is committed but the running node's live order book does not list it", b.Height, id, p.ID), b.Height)
					return
				}
			}
			for id := range seen {
				if !want[id] {
					w.Report("C09", "restart-equivalence", c09class(w, "hot-orders"), fmt.Sprintf("height %d, no restart at all: the running node's live order book of pool %d lists order %d, which the committed state does not have", b.Height, p.ID, id), b.Height)
					return
				}
			}
		}
	}
	w.Probe("hot_cold_compared")
}
