package chain

import (
	"bytes"
	"crypto/ecdsa"
	"crypto/sha256"
	"fmt"
	"math"
	"math/big"
	"sort"

	"github.com/MinterTeam/minter-go-node/coreV2/check"
	"github.com/MinterTeam/minter-go-node/coreV2/transaction"
	"github.com/MinterTeam/minter-go-node/coreV2/types"
	"github.com/MinterTeam/minter-go-node/crypto"
	"github.com/MinterTeam/minter-go-node/rlp"
	"golang.org/x/crypto/sha3"
)

// Amt is an amount selector, fully drawn at generation time.
// Mode 0: absolute M*10^E pip. Mode 1: M per-mille of the reference balance (actor's balance of the
// coin the amount is denominated in; may exceed 1000). Mode 2: zero. Mode 3: 2^256-1. Mode 4: reference
// balance + M (just above), Mode 5: reference - M (just below, floor 0).
type Amt struct {
	Mode int    `json:"m,omitempty"`
	M    uint64 `json:"v,omitempty"`
	E    int    `json:"e,omitempty"`
}

// MultiSel describes a multisig sender.
type MultiSel struct {
	Addr    int   `json:"addr"`            // index into the view's multisig list (mod len)
	Signers []int `json:"signers"`         // account indexes that sign (may include non-owners / duplicates)
	Twice   bool  `json:"twice,omitempty"` // one real owner signs as often as needed to reach the threshold alone (distinct valid signatures)
}

// Op is one intent-level operation with every random choice already drawn.
type Op struct {
	K   string    `json:"k"`
	A   int       `json:"a"`
	X   []int64   `json:"x,omitempty"`
	V   []Amt     `json:"v,omitempty"`
	G   int64     `json:"g,omitempty"`  // gas coin selector (0 base)
	GP  uint32    `json:"gp,omitempty"` // gas price; 0 means 1 unless ZGP
	ZGP bool      `json:"zgp,omitempty"`
	NM  int       `json:"nm,omitempty"` // nonce mode
	SM  int       `json:"sm,omitempty"` // signature mode
	PL  int       `json:"pl,omitempty"` // payload length
	SD  int       `json:"sd,omitempty"` // service data length
	MS  *MultiSel `json:"ms,omitempty"`
	CH  int       `json:"ch,omitempty"` // 1: other chain id
	Raw []byte    `json:"raw,omitempty"`
	Ref int       `json:"ref,omitempty"` // for redeliver/malleate: how many txs back (1 = previous)
	Mut int       `json:"mut,omitempty"` // byte mutation selector
	S   string    `json:"s,omitempty"`   // string argument (ticker, version name)
}

// TxMeta is what the harness knows about a transaction it built (independently of the node).
type TxMeta struct {
	Op          Op
	Bytes       []byte
	Kind        string
	Type        byte
	Sender      types.Address   // address whose nonce/funds are used (multisig address for multisig)
	Signers     []types.Address // keys that actually produced valid signatures
	SigOK       bool            // harness believes the signature set authorises Sender
	Nonce       uint64
	GasCoin     uint64
	GasPrice    uint32
	ChainOK     bool
	Payload     int
	Note        string
	Data        interface{}
	Issuer      *types.Address // check issuer for redeem
	Check       *IssuedCheck   // the check a redeem op presents
	ProofOK     bool           // redeem: proof made with the check's password for the sender's own address
	ProofFor    *types.Address // redeem: address the proof was made for
	ProofPassOK bool           // redeem: proof made with the right password (and the check itself is redeemable)
	SigMode     int            // signature fault actually applied (single-signature transactions only)
	Code        uint32         // result code of this delivery (filled after DeliverTx)
	FirstCode   uint32         // for redeliveries: result code of the first delivery of these bytes
	OrigKind    string         // for redeliveries: kind of the original transaction
	Dup         bool           // bytes identical to an earlier delivered tx
	Malleated   bool
	HighS       bool    // single signature carries n-S (harness fault mode 2 or an odd number of S flips)
	Reenc       bool    // bytes re-encoded non-canonically (length prefix / trailing byte)
	Base        *TxMeta `json:"-"` // the harness-built transaction these bytes derive from (nil: itself)
	Garbage     bool
}

// View is what the "clients" know when they build transactions for the next block.
type View struct {
	S               *Snap
	Height          uint64 // height of the block being built
	NAcct           int
	Chain           types.ChainID
	NonceAdd        map[types.Address]uint64
	MsEdit          map[types.Address]*types.Multisig // multisig definitions edited by accepted transactions of this block
	Log             []*TxMeta                         // all delivered txs so far (for redelivery)
	NVal            int
	Issued          []*IssuedCheck
	DupAcceptedOnly bool // redeliver only transactions whose first delivery was accepted
	addrIdx         map[types.Address]int
}

// IssuedCheck is the harness's record of a check it issued.
type IssuedCheck struct {
	Raw         []byte
	Issuer      int
	Pass        int
	Coin        uint64
	GasCoin     uint64
	Value       *big.Int
	DueBlock    uint64
	ChainOK     bool
	Nonce       []byte
	LockBad     bool
	GenesisUsed bool // listed under used_checks of the genesis: was redeemed on the chain this one continues
}

// PreCheck describes a check that the genesis lists as already used (scenario field, replayable).
type PreCheck struct {
	Issuer int    `json:"issuer"`
	Pass   int    `json:"pass"`
	Coin   uint64 `json:"coin"`
	Value  string `json:"value"`
	Due    uint64 `json:"due"`
	Nonce  string `json:"nonce"`
}

// Build returns the issued check and its hash as the genesis lists it.
func (pc PreCheck) Build(chain types.ChainID) (*IssuedCheck, string) {
	val := bi(pc.Value)
	raw := MakeCheck(chain, pc.Issuer, pc.Pass, []byte(pc.Nonce), pc.Due, types.CoinID(pc.Coin), 0, val, false)
	var c check.Check
	if err := rlp.DecodeBytes(raw, &c); err != nil {
		panic(err)
	}
	h := c.Hash()
	return &IssuedCheck{Raw: raw, Issuer: pc.Issuer, Pass: pc.Pass, Coin: pc.Coin, GasCoin: 0, Value: val, DueBlock: pc.Due, ChainOK: true, Nonce: []byte(pc.Nonce), GenesisUsed: true}, fmt.Sprintf("%x", h[:])
}

func (v *View) idxOf(a types.Address) (int, bool) {
	if v.addrIdx == nil {
		v.addrIdx = map[types.Address]int{}
		for i := 0; i < v.NAcct; i++ {
			v.addrIdx[Acct(i).Addr] = i
		}
	}
	i, ok := v.addrIdx[a]
	return i, ok
}

func mod(x int64, n int) int {
	if n <= 0 {
		return 0
	}
	m := int(x % int64(n))
	if m < 0 {
		m += n
	}
	return m
}

func (o *Op) x(i int) int64 {
	if i < len(o.X) {
		return o.X[i]
	}
	return 0
}
func (o *Op) v(i int) Amt {
	if i < len(o.V) {
		return o.V[i]
	}
	return Amt{Mode: 1, M: 100}
}

var maxU256 = new(big.Int).Sub(new(big.Int).Lsh(big.NewInt(1), 256), big.NewInt(1))

func (a Amt) resolve(ref *big.Int) *big.Int {
	r := a.resolveRaw(ref)
	if r.Sign() < 0 { // a reference that went negative (a broken state): amounts on the wire are unsigned
		return big.NewInt(0)
	}
	return r
}

func (a Amt) resolveRaw(ref *big.Int) *big.Int {
	if ref == nil {
		ref = big.NewInt(0)
	}
	switch a.Mode {
	case 0:
		r := new(big.Int).SetUint64(a.M)
		if a.E > 0 {
			r.Mul(r, new(big.Int).Exp(big.NewInt(10), big.NewInt(int64(a.E)), nil))
		}
		return r
	case 1:
		r := new(big.Int).Mul(ref, new(big.Int).SetUint64(a.M))
		return r.Div(r, big.NewInt(1000))
	case 2:
		return big.NewInt(0)
	case 3:
		return new(big.Int).Set(maxU256)
	case 4:
		return new(big.Int).Add(ref, new(big.Int).SetUint64(a.M))
	case 5:
		r := new(big.Int).Sub(ref, new(big.Int).SetUint64(a.M))
		if r.Sign() < 0 {
			r.SetInt64(0)
		}
		return r
	}
	return big.NewInt(0)
}

// coinAny picks among base + all coins; negative selects a coin that does not exist.
func (v *View) coinAny(sel int64) types.CoinID {
	if sel < 0 {
		return types.CoinID(700000 + uint32(-sel%1000))
	}
	n := len(v.S.CoinIDs) + 1
	i := mod(sel, n)
	if i == 0 {
		return 0
	}
	return types.CoinID(v.S.CoinIDs[i-1])
}

// coinHeld picks among coins the address holds (falls back to coinAny).
func (v *View) coinHeld(a types.Address, sel int64) types.CoinID {
	if sel < 0 {
		return v.coinAny(sel)
	}
	m := v.S.Bal[a]
	if len(m) == 0 {
		return v.coinAny(sel)
	}
	ids := make([]uint64, 0, len(m))
	for id, val := range m {
		if val != nil && val.Sign() > 0 {
			ids = append(ids, id)
		}
	}
	if len(ids) == 0 {
		return v.coinAny(sel)
	}
	sort.Slice(ids, func(i, j int) bool { return ids[i] < ids[j] })
	return types.CoinID(ids[mod(sel, len(ids))])
}

func (v *View) cand(sel int64) types.Pubkey {
	if sel < 0 || len(v.S.Cands) == 0 {
		return ValKey(int(900 + mod(-sel, 50))) // unknown key
	}
	return v.S.Cands[mod(sel, len(v.S.Cands))].PubKey
}

func (v *View) pool(sel int64) (types.CoinID, types.CoinID) {
	if sel < 0 || len(v.S.Pools) == 0 {
		return v.coinAny(-sel), v.coinAny(-sel / 7)
	}
	p := v.S.Pools[mod(sel, len(v.S.Pools))]
	if sel%2 == 1 {
		return types.CoinID(p.Coin1), types.CoinID(p.Coin0)
	}
	return types.CoinID(p.Coin0), types.CoinID(p.Coin1)
}

func (v *View) acct(sel int64) types.Address {
	if sel < 0 {
		switch mod(-sel, 3) {
		case 0:
			return types.Address{} // zero address
		case 1:
			return Acct(1000 + mod(-sel, 50)).Addr // fresh address
		default:
			if len(v.S.Multisig) > 0 {
				return v.multisigList()[mod(-sel, len(v.S.Multisig))]
			}
			return types.Address{}
		}
	}
	return Acct(mod(sel, v.NAcct)).Addr
}

func (v *View) multisigList() []types.Address {
	l := make([]types.Address, 0, len(v.S.Multisig))
	for a := range v.S.Multisig {
		l = append(l, a)
	}
	sort.Slice(l, func(i, j int) bool { return string(l[i][:]) < string(l[j][:]) })
	return l
}

func (v *View) orderIDs() []uint64 {
	var ids []uint64
	for _, p := range v.S.Pools {
		for _, o := range p.Orders {
			ids = append(ids, o.ID)
		}
	}
	sort.Slice(ids, func(i, j int) bool { return ids[i] < ids[j] })
	return ids
}

// route builds a swap route of n coins through existing pools when possible.
func (v *View) route(sel int64, n int) []types.CoinID {
	if n < 2 {
		n = 2
	}
	if sel < 0 || len(v.S.Pools) == 0 {
		r := make([]types.CoinID, n)
		for i := range r {
			r[i] = v.coinAny(-sel + int64(i)*3)
		}
		return r
	}
	c0, c1 := v.pool(sel)
	r := []types.CoinID{c0, c1}
	used := map[types.CoinID]bool{c0: true, c1: true}
	for len(r) < n {
		last := r[len(r)-1]
		found := false
		start := mod(sel/3+int64(len(r)), len(v.S.Pools))
		for k := 0; k < len(v.S.Pools); k++ {
			p := v.S.Pools[(start+k)%len(v.S.Pools)]
			var next types.CoinID
			if types.CoinID(p.Coin0) == last {
				next = types.CoinID(p.Coin1)
			} else if types.CoinID(p.Coin1) == last {
				next = types.CoinID(p.Coin0)
			} else {
				continue
			}
			if used[next] {
				continue
			}
			r = append(r, next)
			used[next] = true
			found = true
			break
		}
		if !found {
			break
		}
	}
	return r
}

func passKey(i int) *ecdsa.PrivateKey {
	pk, err := crypto.ToECDSA(crypto.Keccak256([]byte(fmt.Sprintf("verif/pass/%d", i))))
	if err != nil {
		panic(err)
	}
	return pk
}

func rlpHash(x interface{}) (h types.Hash) {
	hw := sha3.NewLegacyKeccak256()
	if err := rlp.Encode(hw, x); err != nil {
		panic(err)
	}
	hw.Sum(h[:0])
	return h
}

// MakeCheck builds a signed check.
func MakeCheck(chain types.ChainID, issuer, pass int, nonce []byte, due uint64, coin, gasCoin types.CoinID, value *big.Int, lockBad bool) []byte {
	c := &check.Check{Nonce: nonce, ChainID: chain, DueBlock: due, Coin: coin, Value: value, GasCoin: gasCoin}
	h := c.HashWithoutLock()
	lock, err := crypto.Sign(h[:], passKey(pass))
	if err != nil {
		panic(err)
	}
	if lockBad {
		lock[3] ^= 0x40
	}
	c.Lock = new(big.Int).SetBytes(lock)
	if err := c.Sign(Acct(issuer).Priv); err != nil {
		panic(err)
	}
	b, err := rlp.EncodeToBytes(c)
	if err != nil {
		panic(err)
	}
	return b
}

// MakeProof builds the redeem proof for a redeemer address with passphrase key pass.
func MakeProof(pass int, redeemer types.Address) (p [65]byte) {
	h := rlpHash([]interface{}{redeemer})
	sig, err := crypto.Sign(h[:], passKey(pass))
	if err != nil {
		panic(err)
	}
	copy(p[:], sig)
	return
}

func ticker(sel int64) types.CoinSymbol {
	// tickers of length 3..10 from a small alphabet so that collisions happen
	n := 3 + mod(sel, 8)
	s := make([]byte, n)
	x := sel
	if x < 0 {
		x = -x
	}
	for i := range s {
		s[i] = byte('A' + (x+int64(i)*7)%6)
		x /= 6
	}
	return types.StrToCoinSymbol(string(s))
}

// lookalike: a creation in eight names a ticker in use (or the base coin's) behind a leading zero byte -
// a different 10-byte value that reads the same.
func (v *View) lookalike(op *Op, sym types.CoinSymbol) types.CoinSymbol {
	if op.x(4)%8 != 7 {
		return sym
	}
	base := types.GetBaseCoin().String()
	if n := len(v.S.CoinIDs); n > 0 && op.x(5)%5 != 0 {
		if c := v.S.Coins[v.S.CoinIDs[mod(op.x(5), n)]]; c != nil && c.Version == 0 {
			base = c.Symbol.String()
		}
	}
	if len(base) >= 10 || len(base) < 3 {
		return sym
	}
	var z types.CoinSymbol
	copy(z[1+mod(op.x(6), 10-len(base)):], base)
	return z
}

func e18(n int64) *big.Int { return new(big.Int).Mul(big.NewInt(n), big.NewInt(1e18)) }

// Resolve turns an Op into signed transaction bytes against the view. It never consults a PRNG.
func (v *View) Resolve(op Op) *TxMeta {
	m := &TxMeta{Op: op, Kind: op.K}
	switch op.K {
	case "raw":
		m.Bytes = op.Raw
		m.Garbage = true
		return m
	case "redeliver", "malleate", "mutate":
		if len(v.Log) == 0 {
			m.Bytes = []byte{0xc0}
			m.Garbage = true
			return m
		}
		pool := v.Log
		if v.DupAcceptedOnly && op.K == "redeliver" {
			pool = nil
			for _, l := range v.Log {
				if l.Code == 0 && !l.Garbage {
					pool = append(pool, l)
				}
			}
			if len(pool) == 0 {
				m.Bytes = []byte{0xc0}
				m.Garbage = true
				return m
			}
		}
		ref := pool[len(pool)-1-mod(int64(op.Ref), len(pool))]
		*m = *ref
		m.Op = op
		m.Kind = op.K
		if !ref.Dup {
			m.FirstCode, m.OrigKind = ref.Code, ref.Kind
		}
		switch op.K {
		case "redeliver":
			m.Dup = true
		case "malleate":
			base := ref.Base
			if base == nil {
				base = ref
			}
			m.Bytes = malleate(ref.Bytes, op.Mut)
			m.Base = base
			m.Malleated = true
			m.SigOK = false // unknown: any acceptance of a re-encoding is judged by C04/C26
			switch {
			case bytes.Equal(m.Bytes, ref.Bytes):
				// nothing to flip (multisig) or nothing to re-encode: a plain redelivery
				m.Malleated, m.SigOK, m.Dup = ref.Malleated, ref.SigOK, true
			case op.Mut%4 < 2:
				m.HighS = !ref.HighS
			default:
				m.Reenc = true
			}
			if !m.Dup && !m.HighS && !m.Reenc && !ref.Garbage && (base.SigMode == 0 || base.SigMode == 2) {
				// flipped back into the canonical low-S form of what the harness signed: this IS the
				// properly signed transaction (of a fault-mode-2 original) or a redelivery of it
				keepOp, first, orig := m.Op, m.FirstCode, m.OrigKind
				*m = *base
				m.Op, m.Base, m.FirstCode, m.OrigKind = keepOp, base, first, orig
				m.Bytes = malleate(ref.Bytes, op.Mut)
				m.Malleated, m.HighS, m.Reenc = false, false, false
				if base.SigMode == 2 {
					m.SigMode, m.SigOK, m.Signers = 0, true, []types.Address{base.Sender}
				} else {
					m.Dup = true
				}
			}
		case "mutate":
			b := append([]byte{}, ref.Bytes...)
			if len(b) > 0 {
				i := mod(int64(op.Mut), len(b))
				switch (op.Mut / 7) % 3 {
				case 0:
					b[i] ^= 1 << uint(op.Mut%8)
				case 1:
					b = b[:i]
				default:
					b = append(b[:i], append([]byte{byte(op.Mut)}, b[i:]...)...)
				}
			}
			m.Bytes = b
			m.Garbage = true
			m.SigOK = false
		}
		return m
	}

	actor := Acct(mod(int64(op.A), v.NAcct))
	sender := actor.Addr
	signKeys := []*ecdsa.PrivateKey{actor.Priv}
	var ms *types.Multisig
	if op.MS != nil && len(v.S.Multisig) > 0 {
		l := v.multisigList()
		sender = l[mod(int64(op.MS.Addr), len(l))]
		ms = v.S.Multisig[sender]
		if e := v.MsEdit[sender]; e != nil {
			ms = e
		}
		signKeys = nil
		for _, s := range op.MS.Signers {
			signKeys = append(signKeys, Acct(mod(int64(s), v.NAcct+3)).Priv)
		}
		if op.MS.Twice && ms != nil {
			for i, a := range ms.Addresses {
				if idx, ok := v.idxOf(a); ok && i < len(ms.Weights) && ms.Weights[i] > 0 {
					reps := int((ms.Threshold + ms.Weights[i] - 1) / ms.Weights[i])
					if reps < 2 {
						reps = 2
					}
					if reps > 6 {
						reps = 6
					}
					signKeys = nil
					for k := 0; k < reps; k++ {
						signKeys = append(signKeys, Acct(idx).Priv)
					}
					break
				}
			}
		}
	}

	var typ transaction.TxType
	var data interface{}
	var forceGas types.CoinID // set by ops that need a particular commission coin
	ownerOf := func(pk types.Pubkey) (types.Address, bool) {
		if c, ok := v.S.CandByPK[pk]; ok {
			return c.OwnerAddress, true
		}
		return types.Address{}, false
	}
	// asOwner re-targets the actor to the true owner when flag is set and the owner is one of our keys
	asAddr := func(a types.Address, flag int64) {
		if op.MS != nil || flag%5 == 4 { // 1 in 5 keeps the (probably unauthorised) actor
			return
		}
		if i, ok := v.idxOf(a); ok {
			actor = Acct(i)
			sender = actor.Addr
			signKeys = []*ecdsa.PrivateKey{actor.Priv}
		}
	}
	bal := func(c types.CoinID) *big.Int { return v.S.Balance(sender, uint64(c)) }

	switch op.K {
	case "send":
		c := v.coinHeld(sender, op.x(1))
		typ, data = transaction.TypeSend, transaction.SendData{Coin: c, To: v.acct(op.x(0)), Value: op.v(0).resolve(bal(c))}
	case "multisend":
		n := 1 + mod(op.x(0), 6)
		if op.x(0) < 0 {
			n = 0
		}
		var l []transaction.MultisendDataItem
		for i := 0; i < n; i++ {
			c := v.coinHeld(sender, op.x(1)+int64(i))
			a := op.v(0).resolve(bal(c))
			a.Div(a, big.NewInt(int64(n)))
			l = append(l, transaction.MultisendDataItem{Coin: c, To: v.acct(op.x(2) + int64(i)*op.x(3)), Value: a})
		}
		typ, data = transaction.TypeMultisend, transaction.MultisendData{List: l}
	case "sell":
		cs := v.coinHeld(sender, op.x(0))
		typ, data = transaction.TypeSellCoin, transaction.SellCoinData{CoinToSell: cs, ValueToSell: op.v(0).resolve(bal(cs)), CoinToBuy: v.coinAny(op.x(1)), MinimumValueToBuy: op.v(1).resolve(big.NewInt(0))}
	case "sellall":
		cs := v.coinHeld(sender, op.x(0))
		typ, data = transaction.TypeSellAllCoin, transaction.SellAllCoinData{CoinToSell: cs, CoinToBuy: v.coinAny(op.x(1)), MinimumValueToBuy: op.v(1).resolve(big.NewInt(0))}
	case "buy":
		cs := v.coinHeld(sender, op.x(0))
		cb := v.coinAny(op.x(1))
		ref := big.NewInt(0)
		if c, ok := v.S.Coins[uint64(cb)]; ok {
			ref = bi(c.Volume)
		}
		typ, data = transaction.TypeBuyCoin, transaction.BuyCoinData{CoinToBuy: cb, ValueToBuy: op.v(0).resolve(ref), CoinToSell: cs, MaximumValueToSell: op.v(1).resolve(bal(cs))}
	case "sellheadroom":
		// sell base coin for the bancor coin closest to its max supply: the deposit is a fraction of the
		// headroom counted in coins, so a coin priced below 1 would be minted beyond its max supply
		var best *types.Coin
		var room *big.Int
		for _, id := range v.S.CoinIDs {
			c := v.S.Coins[id]
			if c.Crr == 0 || c.Version != 0 {
				continue
			}
			h := new(big.Int).Sub(bi(c.MaxSupply), bi(c.Volume))
			if best == nil || h.Cmp(room) < 0 {
				best, room = c, h
			}
		}
		if best == nil || room.Sign() <= 0 {
			typ, data = transaction.TypeSellCoin, transaction.SellCoinData{CoinToSell: 0, ValueToSell: big.NewInt(1), CoinToBuy: v.coinAny(op.x(1)), MinimumValueToBuy: big.NewInt(0)}
			break
		}
		frac := []int64{20, 100, 300, 600, 900, 990, 1000, 1500}[mod(op.x(1), 8)]
		val := new(big.Int).Div(new(big.Int).Mul(room, big.NewInt(frac)), big.NewInt(1000))
		if val.Sign() <= 0 {
			val = big.NewInt(1)
		}
		typ, data = transaction.TypeSellCoin, transaction.SellCoinData{CoinToSell: 0, ValueToSell: val, CoinToBuy: types.CoinID(best.ID), MinimumValueToBuy: big.NewInt(0)}
	case "buyheadroom":
		// buy a bancor coin up to (and a little across) its max supply, often paying the fee in that coin
		var best *types.Coin
		var room *big.Int
		for _, id := range v.S.CoinIDs {
			c := v.S.Coins[id]
			if c.Crr == 0 || c.Version != 0 {
				continue
			}
			h := new(big.Int).Sub(bi(c.MaxSupply), bi(c.Volume))
			if best == nil || h.Cmp(room) < 0 {
				best, room = c, h
			}
		}
		if best == nil {
			typ, data = transaction.TypeBuyCoin, transaction.BuyCoinData{CoinToBuy: v.coinAny(op.x(1)), ValueToBuy: big.NewInt(1), CoinToSell: 0, MaximumValueToSell: bal(0)}
			break
		}
		deltas := []int64{-1000000000000000, -1, 0, 1, 1000000000000, 100000000000000, 500000000000000, 1000000000000000, 100000000000000000}
		val := new(big.Int).Add(room, big.NewInt(deltas[mod(op.x(1), len(deltas))]))
		if val.Sign() <= 0 {
			val = big.NewInt(1)
		}
		// the richest holder of the coin buys (it can pay the fee in the coin)
		holder := sender
		for i := 0; i < v.NAcct; i++ {
			if v.S.Balance(Acct(i).Addr, best.ID).Cmp(v.S.Balance(holder, best.ID)) > 0 {
				holder = Acct(i).Addr
			}
		}
		asAddr(holder, 0)
		if op.x(2)%3 != 0 {
			forceGas = types.CoinID(best.ID)
		}
		typ, data = transaction.TypeBuyCoin, transaction.BuyCoinData{CoinToBuy: types.CoinID(best.ID), ValueToBuy: val, CoinToSell: 0, MaximumValueToSell: bal(0)}
	case "createcoin", "recreatecoin":
		sym := v.lookalike(&op, ticker(op.x(0)))
		if op.K == "recreatecoin" && len(v.S.CoinIDs) > 0 && op.x(3)%4 != 3 {
			c := v.S.Coins[v.S.CoinIDs[mod(op.x(0), len(v.S.CoinIDs))]]
			sym = c.Symbol
			if c.OwnerAddress != nil {
				asAddr(*c.OwnerAddress, op.x(3))
			}
		}
		crr := uint32(10 + mod(op.x(1), 91))
		if op.x(1) < 0 {
			crr = uint32(mod(-op.x(1), 300))
		}
		amount := op.v(0).resolve(e18(1000))
		reserve := op.v(1).resolve(bal(0))
		maxs := op.v(2).resolve(new(big.Int).Mul(amount, big.NewInt(1000)))
		if op.K == "createcoin" {
			typ, data = transaction.TypeCreateCoin, transaction.CreateCoinData{Name: "c", Symbol: sym, InitialAmount: amount, InitialReserve: reserve, ConstantReserveRatio: crr, MaxSupply: maxs}
		} else {
			typ, data = transaction.TypeRecreateCoin, transaction.RecreateCoinData{Name: "r", Symbol: sym, InitialAmount: amount, InitialReserve: reserve, ConstantReserveRatio: crr, MaxSupply: maxs}
		}
	case "createtoken", "recreatetoken":
		sym := v.lookalike(&op, ticker(op.x(0)))
		if op.K == "recreatetoken" && len(v.S.CoinIDs) > 0 && op.x(3)%4 != 3 {
			c := v.S.Coins[v.S.CoinIDs[mod(op.x(0), len(v.S.CoinIDs))]]
			sym = c.Symbol
			if c.OwnerAddress != nil {
				asAddr(*c.OwnerAddress, op.x(3))
			}
		}
		amount := op.v(0).resolve(e18(1000))
		maxs := op.v(2).resolve(new(big.Int).Mul(amount, big.NewInt(1000)))
		if op.K == "createtoken" {
			typ, data = transaction.TypeCreateToken, transaction.CreateTokenData{Name: "t", Symbol: sym, InitialAmount: amount, MaxSupply: maxs, Mintable: op.x(1)%2 == 0, Burnable: op.x(2)%2 == 0}
		} else {
			typ, data = transaction.TypeRecreateToken, transaction.RecreateTokenData{Name: "t", Symbol: sym, InitialAmount: amount, MaxSupply: maxs, Mintable: op.x(1)%2 == 0, Burnable: op.x(2)%2 == 0}
		}
	case "editcoinowner":
		sym := ticker(op.x(0))
		if len(v.S.CoinIDs) > 0 && op.x(0) >= 0 {
			c := v.S.Coins[v.S.CoinIDs[mod(op.x(0), len(v.S.CoinIDs))]]
			sym = c.Symbol
			if c.OwnerAddress != nil {
				asAddr(*c.OwnerAddress, op.x(3))
			}
		}
		typ, data = transaction.TypeEditCoinOwner, transaction.EditCoinOwnerData{Symbol: sym, NewOwner: v.acct(op.x(1))}
	case "mint", "burn":
		c := v.coinAny(op.x(0))
		if co, ok := v.S.Coins[uint64(c)]; ok && co.OwnerAddress != nil && op.K == "mint" {
			asAddr(*co.OwnerAddress, op.x(3))
		}
		ref := bal(c)
		if op.K == "mint" {
			if co, ok := v.S.Coins[uint64(c)]; ok {
				ref = new(big.Int).Sub(bi(co.MaxSupply), bi(co.Volume))
			}
			typ, data = transaction.TypeMintToken, transaction.MintTokenData{Coin: c, Value: op.v(0).resolve(ref)}
		} else {
			typ, data = transaction.TypeBurnToken, transaction.BurnTokenDataV260{Coin: c, Value: op.v(0).resolve(ref)}
		}
	case "declare":
		c := v.coinHeld(sender, op.x(1))
		pk := ValKey(100 + mod(op.x(0), 40))
		if op.x(0) < 0 {
			pk = v.cand(-op.x(0)) // existing key
		}
		typ, data = transaction.TypeDeclareCandidacy, transaction.DeclareCandidacyData{Address: v.acct(op.x(2)), PubKey: pk, Commission: uint32(mod(op.x(3), 101)), Coin: c, Stake: op.v(0).resolve(bal(c))}
	case "delegate":
		c := v.coinHeld(sender, op.x(1))
		typ, data = transaction.TypeDelegate, transaction.DelegateDataV260{PubKey: v.cand(op.x(0)), Coin: c, Value: op.v(0).resolve(bal(c))}
	case "unbond", "move":
		pk := v.cand(op.x(0))
		c := v.coinAny(op.x(1))
		ref := big.NewInt(0)
		if cd, ok := v.S.CandByPK[pk]; ok {
			// prefer a stake the sender really has
			var mine []types.Stake
			for _, s := range cd.Stakes {
				if s.Owner == sender {
					mine = append(mine, s)
				}
			}
			if len(mine) > 0 && op.x(1) >= 0 {
				s := mine[mod(op.x(1), len(mine))]
				c = types.CoinID(s.Coin)
				ref = bi(s.Value)
			}
		}
		if ref.Sign() == 0 {
			for _, w := range v.S.Raw.Waitlist {
				if w.Owner == sender && types.CoinID(w.Coin) == c {
					ref = bi(w.Value)
				}
			}
		}
		if op.K == "unbond" {
			typ, data = transaction.TypeUnbond, transaction.UnbondDataV3{PubKey: pk, Coin: c, Value: op.v(0).resolve(ref)}
		} else {
			typ, data = transaction.TypeMoveStake, transaction.MoveStakeData{FromPubKey: pk, ToPubKey: v.cand(op.x(2)), Coin: c, Value: op.v(0).resolve(ref)}
		}
	case "seton", "setoff":
		pk := v.cand(op.x(0))
		if o, ok := ownerOf(pk); ok {
			if op.x(1)%3 == 1 {
				asAddr(v.S.CandByPK[pk].ControlAddress, op.x(3))
			} else {
				asAddr(o, op.x(3))
			}
		}
		if op.K == "seton" {
			typ, data = transaction.TypeSetCandidateOnline, transaction.SetCandidateOnData{PubKey: pk}
		} else {
			typ, data = transaction.TypeSetCandidateOffline, transaction.SetCandidateOffData{PubKey: pk}
		}
	case "editcand":
		pk := v.cand(op.x(0))
		if o, ok := ownerOf(pk); ok {
			asAddr(o, op.x(3))
		}
		typ, data = transaction.TypeEditCandidate, transaction.EditCandidateData{PubKey: pk, RewardAddress: v.acct(op.x(1)), OwnerAddress: v.acct(op.x(2)), ControlAddress: v.acct(op.x(4))}
	case "editcandpk":
		pk := v.cand(op.x(0))
		if o, ok := ownerOf(pk); ok {
			asAddr(o, op.x(3))
		}
		npk := ValKey(200 + mod(op.x(1), 40))
		if op.x(1) < 0 {
			npk = v.cand(-op.x(1))
		}
		typ, data = transaction.TypeEditCandidatePublicKey, transaction.EditCandidatePublicKeyData{PubKey: pk, NewPubKey: npk}
	case "editcandcomm":
		pk := v.cand(op.x(0))
		if o, ok := ownerOf(pk); ok {
			asAddr(o, op.x(3))
		}
		typ, data = transaction.TypeEditCandidateCommission, transaction.EditCandidateCommission{PubKey: pk, Commission: uint32(mod(op.x(1), 120))}
	case "createmultisig", "editmultisig":
		n := 1 + mod(op.x(0), 5)
		if op.x(0) < 0 {
			n = mod(-op.x(0), 40)
		}
		var ws []uint32
		var as []types.Address
		for i := 0; i < n; i++ {
			ws = append(ws, uint32(1+mod(op.x(1)+int64(i)*3, 5)))
			as = append(as, Acct(mod(op.x(2)+int64(i)*op.x(3), v.NAcct)).Addr)
		}
		th := uint32(1 + mod(op.x(4), 8))
		if op.K == "createmultisig" {
			typ, data = transaction.TypeCreateMultisig, transaction.CreateMultisigData{Threshold: th, Weights: ws, Addresses: as}
		} else {
			typ, data = transaction.TypeEditMultisig, transaction.EditMultisigData{Threshold: th, Weights: ws, Addresses: as}
		}
	case "sethalt":
		pk := v.cand(op.x(0))
		if o, ok := ownerOf(pk); ok {
			asAddr(o, op.x(3))
		}
		typ, data = transaction.TypeSetHaltBlock, transaction.SetHaltBlockData{PubKey: pk, Height: uint64(int64(v.Height) + op.x(1))}
	case "voteupdate":
		pk := v.cand(op.x(0))
		if o, ok := ownerOf(pk); ok {
			asAddr(o, op.x(3))
		}
		typ, data = transaction.TypeVoteUpdate, transaction.VoteUpdateDataV230{Version: op.S, PubKey: pk, Height: uint64(int64(v.Height) + op.x(1))}
	case "votecomm":
		pk := v.cand(op.x(0))
		if o, ok := ownerOf(pk); ok {
			asAddr(o, op.x(3))
		}
		typ, data = transaction.TypeVoteCommission, v.voteCommData(pk, uint64(int64(v.Height)+op.x(1)), op.x(2), op.x(4))
	case "createpool":
		c0 := v.coinHeld(sender, op.x(0))
		c1 := v.coinHeld(sender, op.x(1))
		typ, data = transaction.TypeCreateSwapPool, transaction.CreateSwapPoolData{Coin0: c0, Coin1: c1, Volume0: op.v(0).resolve(bal(c0)), Volume1: op.v(1).resolve(bal(c1))}
	case "addliq":
		c0, c1 := v.pool(op.x(0))
		vol0 := op.v(0).resolve(bal(c0))
		if op.x(2)%6 == 0 && op.x(0) >= 0 && len(v.S.Pools) > 0 {
			// a dust addition to the skewed side: the matching amount of the second coin rounds to 0, 1 or 2 units
			pl := v.S.Pools[mod(op.x(0), len(v.S.Pools))]
			r0, r1 := bi(pl.Reserve0), bi(pl.Reserve1)
			c0, c1 = types.CoinID(pl.Coin0), types.CoinID(pl.Coin1)
			if r0 != nil && r1 != nil && r0.Cmp(r1) < 0 {
				r0, r1, c0, c1 = r1, r0, c1, c0
			}
			if r0 != nil && r1 != nil && r1.Sign() > 0 {
				k := []int64{1, 2, 3, 4, 5, 8, 16}[mod(op.x(3), 7)]
				vol0 = new(big.Int).Div(new(big.Int).Mul(new(big.Int).Div(r0, r1), big.NewInt(k)), big.NewInt(4))
				if vol0.Sign() <= 0 {
					vol0 = big.NewInt(1)
				}
				if bal(c1).Sign() == 0 || bal(c0).Cmp(vol0) < 0 {
					holder := sender
					for i := 0; i < v.NAcct; i++ {
						a := Acct(i).Addr
						if v.S.Balance(a, uint64(c0)).Cmp(vol0) >= 0 && v.S.Balance(a, uint64(c1)).Cmp(v.S.Balance(holder, uint64(c1))) > 0 {
							holder = a
						}
					}
					asAddr(holder, 0)
				}
			}
		}
		typ, data = transaction.TypeAddLiquidity, transaction.AddLiquidityDataV260{Coin0: c0, Coin1: c1, Volume0: vol0, MaximumVolume1: op.v(1).resolve(bal(c1))}
	case "remliq":
		c0, c1 := v.pool(op.x(0))
		lp := v.lpCoin(c0, c1)
		typ, data = transaction.TypeRemoveLiquidity, transaction.RemoveLiquidityV240{Coin0: c0, Coin1: c1, Liquidity: op.v(0).resolve(bal(lp)), MinimumVolume0: op.v(1).resolve(big.NewInt(0)), MinimumVolume1: op.v(2).resolve(big.NewInt(0))}
	case "sellpool", "buypool", "sellallpool":
		r := v.route(op.x(0), 2+mod(op.x(1), 4))
		if op.x(1) < 0 {
			r = r[:mod(-op.x(1), 2)] // too-short routes
		}
		var first, last types.CoinID
		if len(r) > 0 {
			first, last = r[0], r[len(r)-1]
		}
		switch op.K {
		case "sellpool":
			typ, data = transaction.TypeSellSwapPool, transaction.SellSwapPoolDataV260{Coins: r, ValueToSell: op.v(0).resolve(bal(first)), MinimumValueToBuy: op.v(1).resolve(big.NewInt(0))}
		case "buypool":
			ref := big.NewInt(0)
			for _, p := range v.S.Pools {
				if types.CoinID(p.Coin0) == last {
					ref = bi(p.Reserve0)
				} else if types.CoinID(p.Coin1) == last {
					ref = bi(p.Reserve1)
				}
			}
			typ, data = transaction.TypeBuySwapPool, transaction.BuySwapPoolDataV260{Coins: r, ValueToBuy: op.v(0).resolve(ref), MaximumValueToSell: op.v(1).resolve(bal(first))}
		default:
			typ, data = transaction.TypeSellAllSwapPool, transaction.SellAllSwapPoolDataV260{Coins: r, MinimumValueToBuy: op.v(1).resolve(big.NewInt(0))}
		}
	case "sellusdt", "sellbip":
		// trade on the BIP/USDT pool; the amount is a fraction of the pool's reserve of the coin sold
		from, to := types.CoinID(types.USDTID), types.CoinID(0)
		if op.K == "sellbip" {
			from, to = to, from
		}
		ref := big.NewInt(0)
		for _, p := range v.S.Pools {
			if p.Coin0 == 0 && p.Coin1 == uint64(types.USDTID) {
				ref = bi(p.Reserve1)
				if op.K == "sellbip" {
					ref = bi(p.Reserve0)
				}
			}
		}
		// the richest holder of the coin sells
		best := sender
		for i := 0; i < v.NAcct; i++ {
			if v.S.Balance(Acct(i).Addr, uint64(from)).Cmp(v.S.Balance(best, uint64(from))) > 0 {
				best = Acct(i).Addr
			}
		}
		asAddr(best, 0)
		typ, data = transaction.TypeSellSwapPool, transaction.SellSwapPoolDataV260{Coins: []types.CoinID{from, to}, ValueToSell: op.v(0).resolve(ref), MinimumValueToBuy: big.NewInt(0)}
	case "addorder":
		c0, c1 := v.pool(op.x(0))
		sellv := op.v(0).resolve(bal(c0))
		// price relative to the pool price: buy = sell * r1/r0 * (x2 per-mille)
		buyv := op.v(1).resolve(sellv)
		for _, p := range v.S.Pools {
			r0, r1 := bi(p.Reserve0), bi(p.Reserve1)
			if types.CoinID(p.Coin0) == c1 && types.CoinID(p.Coin1) == c0 {
				r0, r1 = r1, r0
			} else if !(types.CoinID(p.Coin0) == c0 && types.CoinID(p.Coin1) == c1) {
				continue
			}
			if r0.Sign() > 0 && op.v(1).Mode == 6 {
				// pool price times M per-mille, quantised to a 3-bit mantissa so that many orders share
				// exactly the same price (equal-price priority by id); amounts are made exact multiples
				f, _ := new(big.Float).Quo(new(big.Float).SetInt(r1), new(big.Float).SetInt(r0)).Float64()
				f = f * float64(op.v(1).M) / 1000
				if f > 0 && !math.IsInf(f, 0) {
					m, e := math.Frexp(f)
					num := int64(math.Round(m * 8)) // 4..8
					shift := 3 - e
					if shift > 0 {
						sellv = new(big.Int).Lsh(new(big.Int).Rsh(sellv, uint(shift)), uint(shift))
						buyv = new(big.Int).Rsh(new(big.Int).Mul(sellv, big.NewInt(num)), uint(shift))
					} else {
						buyv = new(big.Int).Lsh(new(big.Int).Mul(sellv, big.NewInt(num)), uint(-shift))
					}
				}
			}
			if r0.Sign() > 0 && op.v(1).Mode == 1 {
				buyv = new(big.Int).Mul(sellv, r1)
				buyv.Div(buyv, r0)
				buyv.Mul(buyv, new(big.Int).SetUint64(op.v(1).M))
				buyv.Div(buyv, big.NewInt(1000))
			}
		}
		typ, data = transaction.TypeAddLimitOrder, transaction.AddLimitOrderData{CoinToSell: c0, ValueToSell: sellv, CoinToBuy: c1, ValueToBuy: buyv}
	case "dustorder":
		// prefer a pool whose reserves are equal: an order selling x for x sits exactly at the pool price
		c0, c1 := v.pool(op.x(0))
		var eq []*types.Pool
		for _, p := range v.S.Pools {
			if p.Reserve0 == p.Reserve1 {
				eq = append(eq, p)
			}
		}
		sellv := op.v(0).resolve(bal(c0))
		buyv := new(big.Int).Set(sellv)
		if len(eq) > 0 {
			p := eq[mod(op.x(0), len(eq))]
			c0, c1 = types.CoinID(p.Coin0), types.CoinID(p.Coin1)
			if op.x(1)%2 == 1 {
				c0, c1 = c1, c0
			}
		} else {
			for _, p := range v.S.Pools {
				r0, r1 := bi(p.Reserve0), bi(p.Reserve1)
				if types.CoinID(p.Coin0) == c1 && types.CoinID(p.Coin1) == c0 {
					r0, r1 = r1, r0
				} else if !(types.CoinID(p.Coin0) == c0 && types.CoinID(p.Coin1) == c1) {
					continue
				}
				if r0.Sign() > 0 {
					buyv = new(big.Int).Div(new(big.Int).Mul(sellv, r1), r0)
					buyv.Add(buyv, big.NewInt(1))
				}
			}
		}
		typ, data = transaction.TypeAddLimitOrder, transaction.AddLimitOrderData{CoinToSell: c0, ValueToSell: sellv, CoinToBuy: c1, ValueToBuy: buyv}
	case "fillorder":
		// a taker sells, through the order's own pool, a fraction or a little more of what an order wants
		var sellC, buyC types.CoinID
		want := big.NewInt(1e10)
		if ids := v.orderIDs(); len(ids) > 0 {
			oid := ids[mod(op.x(0), len(ids))]
			if op.x(5)%2 == 0 {
				// the smallest order of all (dust-sized orders change their double-precision price with
				// every partial fill)
				var small *big.Int
				for _, p := range v.S.Pools {
					for _, o := range p.Orders {
						if vol := new(big.Int).Add(bi(o.Volume0), bi(o.Volume1)); small == nil || vol.Cmp(small) < 0 {
							small, oid = vol, o.ID
						}
					}
				}
			}
			for _, p := range v.S.Pools {
				for _, o := range p.Orders {
					if o.ID == oid {
						if o.IsSale { // maker sells coin1 for coin0
							sellC, buyC, want = types.CoinID(p.Coin0), types.CoinID(p.Coin1), bi(o.Volume0)
						} else {
							sellC, buyC, want = types.CoinID(p.Coin1), types.CoinID(p.Coin0), bi(o.Volume1)
						}
					}
				}
			}
		} else {
			sellC, buyC = v.pool(op.x(0))
		}
		typ, data = transaction.TypeSellSwapPool, transaction.SellSwapPoolDataV260{Coins: []types.CoinID{sellC, buyC}, ValueToSell: op.v(0).resolve(want), MinimumValueToBuy: big.NewInt(0)}
	case "remorder":
		ids := v.orderIDs()
		id := uint32(mod(op.x(0), 1<<20))
		if len(ids) > 0 && op.x(0) >= 0 {
			oid := ids[mod(op.x(0), len(ids))]
			id = uint32(oid)
			for _, p := range v.S.Pools {
				for _, o := range p.Orders {
					if o.ID == oid {
						asAddr(o.Owner, op.x(3))
					}
				}
			}
		}
		typ, data = transaction.TypeRemoveLimitOrder, transaction.RemoveLimitOrderData{ID: id}
	case "remdust":
		// the owner cancels its smallest order that sells the base coin, paying the fee in the pool's other
		// coin: the fee conversion runs through the order's own pool (and may consume the order itself)
		var bestID uint64
		var bestV *big.Int
		var bestOwner types.Address
		var other types.CoinID
		for _, p := range v.S.Pools {
			if p.Coin0 != 0 {
				continue
			}
			for _, o := range p.Orders {
				if o.IsSale {
					continue
				}
				if vol := bi(o.Volume0); bestV == nil || vol.Cmp(bestV) < 0 {
					bestID, bestV, bestOwner, other = o.ID, vol, o.Owner, types.CoinID(p.Coin1)
				}
			}
		}
		if bestV != nil {
			asAddr(bestOwner, 0)
			if op.x(1)%4 != 0 {
				forceGas = other
			}
		} else {
			bestID = uint64(mod(op.x(0), 1<<20))
		}
		typ, data = transaction.TypeRemoveLimitOrder, transaction.RemoveLimitOrderData{ID: uint32(bestID)}
	case "lockstake":
		typ, data = transaction.TypeLockStake, transaction.LockStakeData{}
	case "lock":
		c := v.coinHeld(sender, op.x(0))
		typ, data = transaction.TypeLock, transaction.LockData{DueBlock: uint32(int64(v.Height) + op.x(1)), Coin: c, Value: op.v(0).resolve(bal(c))}
	case "pricevote":
		typ, data = transaction.TypePriceVote, struct{ Price uint32 }{uint32(op.x(0))}
	case "unknowntype":
		typ, data = transaction.TxType(0x27+mod(op.x(0), 200)), struct{ A uint32 }{1}
	case "redeem":
		// X: 0 check selector (negative: build a fresh check now), 1 issuer, 2 pass key, 3 coin, 4 due offset, 5 flags
		var ic *IssuedCheck
		if op.x(0) >= 0 && len(v.Issued) > 0 {
			ic = v.Issued[mod(op.x(0), len(v.Issued))]
			if op.x(0) == 999999 { // the check issued last
				ic = v.Issued[len(v.Issued)-1]
			}
		} else {
			issuer := mod(op.x(1), v.NAcct)
			coin := v.coinHeld(Acct(issuer).Addr, op.x(3))
			gas := types.CoinID(0)
			if op.x(5)%4 == 1 {
				gas = coin
			} else if op.x(5)%4 == 2 {
				gas = v.coinHeld(Acct(issuer).Addr, op.x(3)+1)
			}
			val := op.v(0).resolve(v.S.Balance(Acct(issuer).Addr, uint64(coin)))
			nonce := []byte(fmt.Sprintf("n%d", mod(op.x(2)+op.x(1), 1000)))
			if op.x(5)%16 == 15 {
				nonce = make([]byte, 17)
			}
			due := uint64(int64(v.Height) + op.x(4))
			ch := v.Chain
			if op.x(5)%8 == 7 {
				ch = 3 - ch
			}
			lockBad := op.x(5)%32 == 31
			raw := MakeCheck(ch, issuer, mod(op.x(2), 50), nonce, due, coin, gas, val, lockBad)
			ic = &IssuedCheck{Raw: raw, Issuer: issuer, Pass: mod(op.x(2), 50), Coin: uint64(coin), GasCoin: uint64(gas), Value: val, DueBlock: due, ChainOK: ch == v.Chain, Nonce: nonce, LockBad: lockBad}
			v.Issued = append(v.Issued, ic)
		}
		pass := ic.Pass
		proofFor := sender
		switch op.x(6) % 8 {
		case 5:
			pass = ic.Pass + 1 // wrong password
		case 6:
			proofFor = v.acct(op.x(1) + 1) // proof made for somebody else
		}
		op.G = 0
		m.Check = ic
		m.ProofOK = pass == ic.Pass && proofFor == sender && !ic.LockBad
		pf := proofFor
		m.ProofFor, m.ProofPassOK = &pf, pass == ic.Pass && !ic.LockBad
		m.Issuer = &Acct(ic.Issuer).Addr
		typ, data = transaction.TypeRedeemCheck, transaction.RedeemCheckData{RawCheck: ic.Raw, Proof: MakeProof(pass, proofFor)}
		m.GasCoin = ic.GasCoin
		if op.x(6)%8 == 7 {
			m.GasCoin = uint64(v.coinAny(op.x(3) + 2)) // wrong gas coin
		}
		m.Note = fmt.Sprintf("check issuer=%d pass=%d coin=%d gas=%d value=%s due=%d", ic.Issuer, ic.Pass, ic.Coin, ic.GasCoin, ic.Value, ic.DueBlock)
	default:
		panic("unknown op kind " + op.K)
	}

	raw, err := rlp.EncodeToBytes(data)
	if err != nil {
		panic(fmt.Sprintf("encode %s: %v", op.K, err))
	}
	gasCoin := v.coinHeld(sender, op.G)
	if op.G == 0 {
		gasCoin = 0
	}
	if forceGas != 0 {
		gasCoin = forceGas
	}
	if op.K == "redeem" {
		gasCoin = types.CoinID(m.GasCoin)
	}
	gp := op.GP
	if gp == 0 && !op.ZGP {
		gp = 1
	}
	base := v.S.Nonce[sender] + v.NonceAdd[sender]
	nonce := base + 1
	switch op.NM {
	case 1:
		nonce = base
	case 2:
		nonce = base + 2
	case 3:
		nonce = 0
	case 4:
		nonce = ^uint64(0)
	}
	chain := v.Chain
	if op.CH == 1 {
		chain = 3 - v.Chain
	}
	tx := transaction.Transaction{Nonce: nonce, ChainID: chain, GasPrice: gp, GasCoin: gasCoin, Type: typ, Data: raw, SignatureType: transaction.SigTypeSingle}
	if op.PL > 0 {
		tx.Payload = make([]byte, op.PL)
		for i := range tx.Payload {
			tx.Payload[i] = byte(i * 7)
		}
	}
	if op.SD > 0 {
		tx.ServiceData = make([]byte, op.SD)
	}
	m.SigOK = true
	if ms != nil || op.MS != nil && len(v.S.Multisig) > 0 {
		tx.SignatureType = transaction.SigTypeMulti
		tx.SetMultisigAddress(sender)
		var weight uint64
		seen := map[types.Address]bool{}
		dup := false
		for _, k := range signKeys {
			a := crypto.PubkeyToAddress(k.PublicKey)
			if seen[a] {
				// the same owner signs again: with another ECDSA nonce, so that the second signature is a
				// different, perfectly valid signature of the same key (not a byte-identical copy)
				h := tx.Hash()
				tx.SetSignature(signWithNonce(h[:], k, uint64(len(m.Signers))))
				w := len(m.Signers)
				_ = w
			} else if err := tx.Sign(k); err != nil {
				panic(err)
			}
			m.Signers = append(m.Signers, a)
			if seen[a] {
				dup = true
			}
			seen[a] = true
			for i, o := range ms.Addresses {
				if o == a && i < len(ms.Weights) {
					weight += ms.Weights[i]
					break
				}
			}
		}
		m.SigOK = !dup && weight >= ms.Threshold && len(signKeys) <= 32 && len(signKeys) <= len(ms.Weights)
		if len(signKeys) == 0 {
			// SetMultisigAddress already encoded an empty list
			m.SigOK = ms.Threshold == 0
		}
	} else {
		key := signKeys[0]
		m.SigMode = op.SM
		switch op.SM {
		case 4: // signed by another key: then the "sender" is that key's account
			key = Acct(mod(int64(op.A)+1, v.NAcct)).Priv
			sender = crypto.PubkeyToAddress(key.PublicKey)
			// nonce was computed for the actor, keep as is (probably wrong for the other key)
			if m.ProofFor != nil {
				// a check proof is bound to whoever really signs
				m.ProofOK = m.ProofPassOK && *m.ProofFor == sender
			}
		}
		if err := tx.Sign(key); err != nil {
			panic(err)
		}
		m.Signers = []types.Address{crypto.PubkeyToAddress(key.PublicKey)}
		switch op.SM {
		case 1: // garbage signature
			tx.SignatureData = []byte{0xc3, 0x01, 0x02, 0x03}
			m.SigOK = false
			m.Signers = nil
		case 2, 3: // high S / bad V: re-encode the signature
			var sig transaction.Signature
			if err := rlp.DecodeBytes(tx.SignatureData, &sig); err != nil {
				panic(err)
			}
			if op.SM == 2 {
				m.HighS = true
				n := crypto.S256().Params().N
				sig.S = new(big.Int).Sub(n, sig.S)
				if sig.V.Int64() == 27 {
					sig.V = big.NewInt(28)
				} else {
					sig.V = big.NewInt(27)
				}
			} else {
				sig.V = big.NewInt(29 + int64(op.Mut%200))
			}
			tx.SignatureData, _ = rlp.EncodeToBytes(sig)
			m.SigOK = false
			m.Signers = nil
		}
	}
	b, err := rlp.EncodeToBytes(tx)
	if err != nil {
		panic(err)
	}
	m.Bytes = b
	m.Type = byte(typ)
	m.Sender = sender
	m.Nonce = nonce
	m.GasCoin = uint64(gasCoin)
	// sell-all transactions pay their commission in the coin being sold
	switch d := data.(type) {
	case transaction.SellAllCoinData:
		m.GasCoin = uint64(d.CoinToSell)
	case transaction.SellAllSwapPoolDataV260:
		m.GasCoin = 0
		if len(d.Coins) > 0 {
			m.GasCoin = uint64(d.Coins[0])
		}
	}
	m.GasPrice = gp
	m.ChainOK = chain == v.Chain
	m.Payload = op.PL + op.SD
	m.Data = data
	return m
}

func (v *View) lpCoin(c0, c1 types.CoinID) types.CoinID {
	for _, p := range v.S.Pools {
		if (types.CoinID(p.Coin0) == c0 && types.CoinID(p.Coin1) == c1) || (types.CoinID(p.Coin0) == c1 && types.CoinID(p.Coin1) == c0) {
			sym := transaction.LiquidityCoinSymbol(uint32(p.ID))
			for _, c := range v.S.Coins {
				if c.Symbol == sym {
					return types.CoinID(c.ID)
				}
			}
		}
	}
	return 0
}

// voteCommData builds a price table: variant selects among a few tables (so that votes can agree).
func (v *View) voteCommData(pk types.Pubkey, height uint64, variant, coinSel int64) transaction.VoteCommissionDataV3 {
	mul := big.NewInt(1 + int64(mod(variant, 4)))
	c := v.S.Raw.Commission
	f := func(s string) *big.Int { return new(big.Int).Mul(bi(s), mul) }
	coin := types.CoinID(0)
	if coinSel > 0 {
		// a coin that has a pool with the base coin
		var cands []uint64
		for _, p := range v.S.Pools {
			if p.Coin0 == 0 {
				cands = append(cands, p.Coin1)
			}
		}
		if len(cands) > 0 {
			coin = types.CoinID(cands[mod(coinSel, len(cands))])
		}
	} else if coinSel < 0 {
		coin = v.coinAny(-coinSel)
	}
	d := transaction.VoteCommissionDataV3{PubKey: pk, Height: height, Coin: coin,
		PayloadByte: f(c.PayloadByte), Send: f(c.Send), BuyBancor: f(c.BuyBancor), SellBancor: f(c.SellBancor), SellAllBancor: f(c.SellAllBancor),
		BuyPoolBase: f(c.BuyPoolBase), BuyPoolDelta: f(c.BuyPoolDelta), SellPoolBase: f(c.SellPoolBase), SellPoolDelta: f(c.SellPoolDelta),
		SellAllPoolBase: f(c.SellAllPoolBase), SellAllPoolDelta: f(c.SellAllPoolDelta),
		CreateTicker3: f(c.CreateTicker3), CreateTicker4: f(c.CreateTicker4), CreateTicker5: f(c.CreateTicker5), CreateTicker6: f(c.CreateTicker6), CreateTicker7to10: f(c.CreateTicker7_10),
		CreateCoin: f(c.CreateCoin), CreateToken: f(c.CreateToken), RecreateCoin: f(c.RecreateCoin), RecreateToken: f(c.RecreateToken),
		DeclareCandidacy: f(c.DeclareCandidacy), Delegate: f(c.Delegate), Unbond: f(c.Unbond), RedeemCheck: f(c.RedeemCheck),
		SetCandidateOn: f(c.SetCandidateOn), SetCandidateOff: f(c.SetCandidateOff), CreateMultisig: f(c.CreateMultisig),
		MultisendBase: f(c.MultisendBase), MultisendDelta: f(c.MultisendDelta), EditCandidate: f(c.EditCandidate), SetHaltBlock: f(c.SetHaltBlock),
		EditTickerOwner: f(c.EditTickerOwner), EditMultisig: f(c.EditMultisig), EditCandidatePublicKey: f(c.EditCandidatePublicKey),
		CreateSwapPool: f(c.CreateSwapPool), AddLiquidity: f(c.AddLiquidity), RemoveLiquidity: f(c.RemoveLiquidity),
		EditCandidateCommission: f(c.EditCandidateCommission), MintToken: f(c.MintToken), BurnToken: f(c.BurnToken),
		VoteCommission: f(c.VoteCommission), VoteUpdate: f(c.VoteUpdate), FailedTx: f(c.FailedTx),
		AddLimitOrder: f(c.AddLimitOrder), RemoveLimitOrder: f(c.RemoveLimitOrder), MoveStake: f(c.MoveStake), LockStake: f(c.LockStake), Lock: f(c.Lock)}
	return d
}

// malleate re-encodes a signed transaction differently without touching the signed content.
func malleate(b []byte, sel int) []byte {
	var tx transaction.Transaction
	if err := rlp.DecodeBytes(b, &tx); err != nil {
		return append([]byte{}, b...)
	}
	switch sel % 4 {
	case 0, 1: // flip S to n-S and V
		if tx.SignatureType == transaction.SigTypeSingle {
			var sig transaction.Signature
			if rlp.DecodeBytes(tx.SignatureData, &sig) == nil && sig.S != nil && sig.V != nil {
				n := crypto.S256().Params().N
				sig.S = new(big.Int).Sub(n, sig.S)
				if sig.V.Int64() == 27 {
					sig.V = big.NewInt(28)
				} else {
					sig.V = big.NewInt(27)
				}
				tx.SignatureData, _ = rlp.EncodeToBytes(sig)
			}
		}
		out, _ := rlp.EncodeToBytes(tx)
		return out
	case 2: // non-minimal length prefix of the outer list: 0xf8 len -> 0xf9 00 len
		if len(b) > 2 && b[0] == 0xf8 {
			out := []byte{0xf9, 0x00, b[1]}
			return append(out, b[2:]...)
		}
		if len(b) > 3 && b[0] == 0xf9 {
			out := []byte{0xfa, 0x00, b[1], b[2]}
			return append(out, b[3:]...)
		}
		return append([]byte{}, b...)
	default: // trailing byte
		return append(append([]byte{}, b...), 0x00)
	}
}

// signWithNonce signs hash with an explicitly chosen ECDSA nonce (derived from the key, the hash and
// salt): a second, different but valid low-S signature of the same key over the same message.
func signWithNonce(hash []byte, prv *ecdsa.PrivateKey, salt uint64) []byte {
	curve := crypto.S256()
	n := curve.Params().N
	seed := append(append(append([]byte("alt-nonce"), prv.D.Bytes()...), hash...), byte(salt), byte(salt>>8))
	for ctr := 0; ; ctr++ {
		kh := sha256.Sum256(append(seed, byte(ctr)))
		k := new(big.Int).SetBytes(kh[:])
		k.Mod(k, n)
		if k.Sign() == 0 {
			continue
		}
		x, y := curve.ScalarBaseMult(k.Bytes())
		r := new(big.Int).Mod(x, n)
		if r.Sign() == 0 || x.Cmp(n) >= 0 {
			continue
		}
		z := new(big.Int).SetBytes(hash)
		sv := new(big.Int).Mul(r, prv.D)
		sv.Add(sv, z)
		sv.Mul(sv, new(big.Int).ModInverse(k, n))
		sv.Mod(sv, n)
		if sv.Sign() == 0 {
			continue
		}
		v := byte(y.Bit(0))
		half := new(big.Int).Rsh(n, 1)
		if sv.Cmp(half) > 0 {
			sv.Sub(n, sv)
			v ^= 1
		}
		sig := make([]byte, 65)
		rb, sb := r.Bytes(), sv.Bytes()
		copy(sig[32-len(rb):32], rb)
		copy(sig[64-len(sb):64], sb)
		sig[64] = v
		return sig
	}
}
