package chain

import (
	"fmt"
	"math/big"
	"math/rand"
	"reflect"
	"sort"

	"github.com/MinterTeam/minter-go-node/coreV2/transaction"
	"github.com/MinterTeam/minter-go-node/coreV2/types"
)

// GenCfg is the shape of a generated genesis.
type GenCfg struct {
	NAcct      int   `json:"n_acct"`
	NVal       int   `json:"n_val"`
	NCand      int   `json:"n_cand"` // extra (non validator) candidates
	NCoin      int   `json:"n_coin"`
	NToken     int   `json:"n_token"`
	NPool      int   `json:"n_pool"` // besides BIP/USDT
	NMultisig  int   `json:"n_multisig"`
	USDT       bool  `json:"usdt"`
	OldRules   bool  `json:"old_rules"` // v300 only
	NearCap    bool  `json:"near_cap"`
	Frozen     int   `json:"frozen"`
	Waitlist   int   `json:"waitlist"`
	Orders     int   `json:"orders"`
	EqualStake bool  `json:"equal_stake"`
	TightSupply bool `json:"tight_supply,omitempty"` // bancor coins a few coins below their max supply, with a base-coin pool that prices them dearly
	EqualPools bool  `json:"equal_pools,omitempty"` // some pools start with reserve0 == reserve1 (orders exactly at the pool price)
	PriceCoin  bool  `json:"price_coin"` // commission table denominated in a custom coin
	PriceSwarm bool  `json:"price_swarm,omitempty"` // some entries of the commission table are zero, odd, much larger or much smaller
	GenesisHr  int   `json:"genesis_hr"`
	InitialH   int64 `json:"initial_h"` // first block height
	LockedAcct int   `json:"locked_acct"`
	ManyDeleg  int   `json:"many_deleg"` // candidate 0 gets this many extra delegations (limits scenario)
}

func pip(n float64) *big.Int {
	f := new(big.Float).Mul(big.NewFloat(n), big.NewFloat(1e18))
	i, _ := f.Int(nil)
	return i
}

func logUniform(r *rand.Rand, lo, hi float64) float64 {
	// lo, hi are exponents of ten
	e := lo + r.Float64()*(hi-lo)
	x := 1.0
	for i := 0; i < int(e); i++ {
		x *= 10
	}
	frac := e - float64(int(e))
	x *= 1 + 9*frac*r.Float64()
	return x
}

// DefaultCommission is the price table used in generated genesis states.
func DefaultCommission() types.Commission {
	return types.Commission{
		Coin: 0, PayloadByte: "2000000000000000", Send: "10000000000000000", BuyBancor: "100000000000000000",
		SellBancor: "100000000000000000", SellAllBancor: "100000000000000000", BuyPoolBase: "100000000000000000",
		BuyPoolDelta: "50000000000000000", SellPoolBase: "100000000000000000", SellPoolDelta: "50000000000000000",
		SellAllPoolBase: "100000000000000000", SellAllPoolDelta: "50000000000000000",
		CreateTicker3: "1000000000000000000000000", CreateTicker4: "100000000000000000000000", CreateTicker5: "10000000000000000000000",
		CreateTicker6: "1000000000000000000000", CreateTicker7_10: "100000000000000000000", CreateCoin: "0", CreateToken: "0",
		RecreateCoin: "10000000000000000000000", RecreateToken: "10000000000000000000000", DeclareCandidacy: "10000000000000000000",
		Delegate: "200000000000000000", Unbond: "200000000000000000", RedeemCheck: "30000000000000000",
		SetCandidateOn: "100000000000000000", SetCandidateOff: "100000000000000000", CreateMultisig: "100000000000000000",
		MultisendBase: "10000000000000000", MultisendDelta: "5000000000000000", EditCandidate: "10000000000000000000",
		SetHaltBlock: "1000000000000000000", EditTickerOwner: "10000000000000000000000", EditMultisig: "1000000000000000000",
		EditCandidatePublicKey: "100000000000000000000000", CreateSwapPool: "1000000000000000000", AddLiquidity: "100000000000000000",
		RemoveLiquidity: "100000000000000000", EditCandidateCommission: "10000000000000000000", MintToken: "100000000000000000",
		BurnToken: "100000000000000000", VoteCommission: "1000000000000000000", VoteUpdate: "1000000000000000000",
		FailedTx: "10000000000000000", AddLimitOrder: "100000000000000000", RemoveLimitOrder: "100000000000000000",
		MoveStake: "100000000000000000", LockStake: "100000000000000000", Lock: "100000000000000000",
	}
}

type balMap map[types.Address]map[uint64]*big.Int

func (b balMap) add(a types.Address, coin uint64, v *big.Int) {
	if v.Sign() == 0 {
		return
	}
	if b[a] == nil {
		b[a] = map[uint64]*big.Int{}
	}
	if b[a][coin] == nil {
		b[a][coin] = new(big.Int)
	}
	b[a][coin].Add(b[a][coin], v)
}

func isqrt(n *big.Int) *big.Int { return new(big.Int).Sqrt(n) }

// BuildGenesis builds a consistent genesis state from the PRNG.
func BuildGenesis(r *rand.Rand, g GenCfg) types.AppState {
	st := types.AppState{Note: "sim", MaxGas: 100000, TotalSlashed: "0", Commission: DefaultCommission()}
	bals := balMap{}
	for i := 0; i < g.NAcct; i++ {
		bals.add(Acct(i).Addr, 0, pip(logUniform(r, 3, 7.5)))
	}
	// a few poor accounts
	for i := 0; i < g.NAcct; i += 5 {
		bals[Acct(i).Addr][0] = big.NewInt(int64(r.Intn(3)) * 1e15)
		if bals[Acct(i).Addr][0].Sign() == 0 {
			delete(bals[Acct(i).Addr], 0)
		}
	}
	nextID := uint64(1)
	type coinAcc struct {
		c      *types.Coin
		volume *big.Int
	}
	var coins []*coinAcc
	newCoin := func(sym string, crr uint64, owner *types.Address) *coinAcc {
		c := &types.Coin{ID: nextID, Name: "g" + sym, Symbol: types.StrToCoinSymbol(sym), Crr: crr, OwnerAddress: owner}
		nextID++
		ca := &coinAcc{c: c, volume: new(big.Int)}
		coins = append(coins, ca)
		return ca
	}
	give := func(ca *coinAcc, a types.Address, v *big.Int) {
		bals.add(a, ca.c.ID, v)
		ca.volume.Add(ca.volume, v)
	}
	for j := 0; j < g.NCoin; j++ {
		owner := Acct(r.Intn(g.NAcct)).Addr
		ca := newCoin(fmt.Sprintf("BNC%d", j), uint64(10+r.Intn(91)), &owner)
		ca.c.Reserve = pip(logUniform(r, 4.1, 6.5)).String()
		for k := 0; k < 2+r.Intn(3); k++ {
			give(ca, Acct(r.Intn(g.NAcct)).Addr, pip(logUniform(r, 2, 6)))
		}
	}
	for j := 0; j < g.NToken; j++ {
		owner := Acct(r.Intn(g.NAcct)).Addr
		ca := newCoin(fmt.Sprintf("TKN%d", j), 0, &owner)
		ca.c.Mintable = r.Intn(2) == 0
		ca.c.Burnable = r.Intn(2) == 0
		for k := 0; k < 2+r.Intn(3); k++ {
			give(ca, Acct(r.Intn(g.NAcct)).Addr, pip(logUniform(r, 2, 7)))
		}
	}
	var usdt *coinAcc
	if g.USDT {
		owner := Acct(0).Addr
		usdt = &coinAcc{c: &types.Coin{ID: uint64(types.USDTID), Name: "usdt", Symbol: types.StrToCoinSymbol("USDTE"), OwnerAddress: &owner, Mintable: true, Burnable: true}, volume: new(big.Int)}
		for k := 0; k < 3; k++ {
			give(usdt, Acct(r.Intn(g.NAcct)).Addr, pip(logUniform(r, 3, 6)))
		}
	}
	byID := func(id uint64) *coinAcc {
		if usdt != nil && id == usdt.c.ID {
			return usdt
		}
		for _, c := range coins {
			if c.c.ID == id {
				return c
			}
		}
		return nil
	}
	// pools
	poolID := uint64(1)
	var lpCoins []*coinAcc
	addPool := func(c0, c1 uint64, r0, r1 *big.Int) {
		if c0 > c1 {
			c0, c1 = c1, c0
			r0, r1 = r1, r0
		}
		for _, p := range st.Pools {
			if p.Coin0 == c0 && p.Coin1 == c1 {
				return
			}
		}
		if c0 != 0 {
			byID(c0).volume.Add(byID(c0).volume, r0)
		}
		byID(c1).volume.Add(byID(c1).volume, r1)
		liq := isqrt(new(big.Int).Mul(r0, r1))
		lp := &coinAcc{c: &types.Coin{ID: 0, Name: "Liquidity Pool", Symbol: transaction.LiquidityCoinSymbol(uint32(poolID)), Mintable: true, Burnable: true}, volume: new(big.Int)}
		lpCoins = append(lpCoins, lp)
		holder := Acct(r.Intn(g.NAcct)).Addr
		lp.volume.Set(liq)
		// balances filled after ids are known
		lp.c.Name = holder.String() // temporarily stash holder
		st.Pools = append(st.Pools, types.Pool{Coin0: c0, Coin1: c1, Reserve0: r0.String(), Reserve1: r1.String(), ID: poolID})
		poolID++
	}
	if g.USDT {
		bip := pip(logUniform(r, 5, 7))
		price := 0.002 + r.Float64()*0.05 // USDT per BIP
		u := new(big.Int).Div(new(big.Int).Mul(bip, big.NewInt(int64(price*1e6))), big.NewInt(1e6))
		addPool(0, usdt.c.ID, bip, u)
	}
	nonLP := len(coins)
	if g.TightSupply {
		for _, ca := range coins {
			if ca.c.Crr > 0 {
				// a pool that makes the coin dear in base-coin terms: commissions are cheapest through it
				addPool(0, ca.c.ID, pip(logUniform(r, 5, 6)), pip(logUniform(r, 2, 3)))
				break
			}
		}
	}
	for k := 0; k < g.NPool && nonLP > 0; k++ {
		a := uint64(0)
		if k%2 == 1 && nonLP > 1 {
			a = coins[r.Intn(nonLP)].c.ID
		}
		b := coins[r.Intn(nonLP)].c.ID
		if a == b {
			continue
		}
		r0, r1 := pip(logUniform(r, 2, 6)), pip(logUniform(r, 2, 6))
		if g.EqualPools && k%2 == 0 {
			r1 = new(big.Int).Set(r0)
		}
		addPool(a, b, r0, r1)
	}
	// LP tokens get dense ids after ordinary coins
	for i, lp := range lpCoins {
		lp.c.ID = nextID
		nextID++
		var holder types.Address
		for k := 0; k < g.NAcct; k++ {
			if Acct(k).Addr.String() == lp.c.Name {
				holder = Acct(k).Addr
			}
		}
		lp.c.Name = fmt.Sprintf("Liquidity Pool %d", st.Pools[i].ID)
		bound := big.NewInt(1000)
		bals.add(types.Address{}, lp.c.ID, bound)
		bals.add(holder, lp.c.ID, new(big.Int).Sub(lp.volume, bound))
		coins = append(coins, lp)
	}
	// candidates and validators
	nc := g.NVal + g.NCand
	baseStake := pip(logUniform(r, 3.5, 6))
	for i := 0; i < nc; i++ {
		pk := ValKey(i)
		c := types.Candidate{ID: uint64(i + 1), PubKey: pk, OwnerAddress: Acct(r.Intn(g.NAcct)).Addr, RewardAddress: Acct(r.Intn(g.NAcct)).Addr,
			ControlAddress: Acct(r.Intn(g.NAcct)).Addr, Commission: uint64(r.Intn(101)), Status: 1}
		if i < g.NVal || r.Intn(3) > 0 {
			c.Status = 2
		}
		total := new(big.Int)
		seen := map[string]bool{}
		ns := 1 + r.Intn(5)
		for k := 0; k < ns; k++ {
			owner := Acct(r.Intn(g.NAcct)).Addr
			key := owner.String() + ":0"
			if seen[key] {
				continue
			}
			seen[key] = true
			v := pip(logUniform(r, 3.1, 6))
			if g.EqualStake {
				v = new(big.Int).Set(baseStake)
				if k > 0 {
					break
				}
			}
			if i >= g.NVal && r.Intn(4) == 0 {
				v = pip(logUniform(r, 0, 3)) // below the 1000 BIP bar
			}
			c.Stakes = append(c.Stakes, types.Stake{Owner: owner, Coin: 0, Value: v.String(), BipValue: v.String()})
			total.Add(total, v)
		}
		if i == 0 && g.ManyDeleg > 0 {
			for k := 0; k < g.ManyDeleg; k++ {
				owner := Acct(2000 + k).Addr
				v := pip(float64(10 + k))
				c.Stakes = append(c.Stakes, types.Stake{Owner: owner, Coin: 0, Value: v.String(), BipValue: v.String()})
				total.Add(total, v)
			}
		}
		// custom coin stakes only on non-validators (bip value is computed by the node at import)
		if i >= g.NVal && len(coins) > 0 && r.Intn(2) == 0 && nonLP > 0 {
			ca := coins[r.Intn(nonLP)]
			if ca.c.Crr != 0 {
				owner := Acct(r.Intn(g.NAcct)).Addr
				if !seen[owner.String()+fmt.Sprint(ca.c.ID)] {
					v := pip(logUniform(r, 1, 4))
					ca.volume.Add(ca.volume, v)
					c.Stakes = append(c.Stakes, types.Stake{Owner: owner, Coin: ca.c.ID, Value: v.String(), BipValue: "0"})
				}
			}
		}
		c.TotalBipStake = total.String()
		st.Candidates = append(st.Candidates, c)
		if i < g.NVal {
			st.Validators = append(st.Validators, types.Validator{TotalBipStake: total.String(), PubKey: pk, AccumReward: "0", AbsentTimes: types.NewBitArray(24)})
		}
	}
	for k := 0; k < g.Frozen && nc > 0; k++ {
		ci := r.Intn(nc)
		pk := ValKey(ci)
		st.FrozenFunds = append(st.FrozenFunds, types.FrozenFund{Height: uint64(g.InitialH) + uint64(1+r.Intn(40)), Address: Acct(r.Intn(g.NAcct)).Addr,
			CandidateKey: &pk, CandidateID: uint64(ci + 1), Coin: 0, Value: pip(logUniform(r, 0, 4)).String()})
	}
	for k := 0; k < g.Waitlist && nc > 0; k++ {
		ci := r.Intn(nc)
		owner := Acct(r.Intn(g.NAcct)).Addr
		dup := false
		for _, w := range st.Waitlist {
			if w.Owner == owner && w.CandidateID == uint64(ci+1) {
				dup = true
			}
		}
		if dup {
			continue
		}
		st.Waitlist = append(st.Waitlist, types.Waitlist{CandidateID: uint64(ci + 1), Owner: owner, Coin: 0, Value: pip(logUniform(r, 0, 3)).String()})
	}
	for i := 0; i < g.NMultisig; i++ {
		n := 2 + r.Intn(3)
		ms := &types.Multisig{Threshold: uint64(2 + r.Intn(4))}
		seen := map[int]bool{}
		for k := 0; k < n; k++ {
			o := r.Intn(g.NAcct)
			if seen[o] {
				continue
			}
			seen[o] = true
			ms.Addresses = append(ms.Addresses, Acct(o).Addr)
			ms.Weights = append(ms.Weights, uint64(1+r.Intn(3)))
		}
		a := MultisigAddr(i)
		bals.add(a, 0, pip(logUniform(r, 3, 6)))
		st.Accounts = append(st.Accounts, types.Account{Address: a, MultisigData: ms})
	}
	// finalize coins
	for _, ca := range coins {
		ca.c.Volume = ca.volume.String()
		mx := new(big.Int).Mul(ca.volume, big.NewInt(int64(1+r.Intn(1000))))
		if g.TightSupply && ca.c.Crr > 0 {
			mx = new(big.Int).Add(ca.volume, pip(float64(1+r.Intn(200))))
		}
		lim := new(big.Int).Mul(big.NewInt(1e15), big.NewInt(1e18))
		if mx.Cmp(lim) > 0 || ca.c.Symbol.String()[:2] == "LP" {
			mx = lim
		}
		ca.c.MaxSupply = mx.String()
		st.Coins = append(st.Coins, *ca.c)
	}
	if usdt != nil {
		usdt.c.Volume = usdt.volume.String()
		usdt.c.MaxSupply = new(big.Int).Mul(big.NewInt(1e15), big.NewInt(1e18)).String()
		st.Coins = append(st.Coins, *usdt.c)
	}
	// accounts
	have := map[types.Address]int{}
	for i, a := range st.Accounts {
		have[a.Address] = i
	}
	addrs := make([]types.Address, 0, len(bals))
	for a := range bals {
		addrs = append(addrs, a)
	}
	sort.Slice(addrs, func(i, j int) bool { return string(addrs[i][:]) < string(addrs[j][:]) })
	for _, a := range addrs {
		var bl []types.Balance
		ids := make([]uint64, 0)
		for id := range bals[a] {
			ids = append(ids, id)
		}
		sort.Slice(ids, func(i, j int) bool { return ids[i] < ids[j] })
		for _, id := range ids {
			bl = append(bl, types.Balance{Coin: id, Value: bals[a][id].String()})
		}
		if i, ok := have[a]; ok {
			st.Accounts[i].Balance = bl
		} else {
			st.Accounts = append(st.Accounts, types.Account{Address: a, Balance: bl})
		}
	}
	for k := 0; k < g.LockedAcct; k++ {
		i := r.Intn(len(st.Accounts))
		st.Accounts[i].LockStakeUntilBlock = uint64(g.InitialH) + uint64(r.Intn(400))
	}
	// versions
	if g.OldRules {
		st.Version = "v300"
	} else {
		st.Version = "v330"
		st.Versions = []types.Version{{Name: "v300", Height: 0}, {Name: "v310", Height: 0}, {Name: "v320", Height: 0}, {Name: "v330", Height: 0}}
		// heights must be > 0 for GetVersionHeight to report them (it returns Height+1, 0 means unknown)
		for i := range st.Versions {
			st.Versions[i].Height = uint64(i)
		}
	}
	if g.NearCap {
		cap := new(big.Int)
		cap.SetString("10000000000000000000000000000", 10)
		st.Emission = new(big.Int).Sub(cap, pip(float64(500+r.Intn(20000)))).String()
	} else {
		st.Emission = pip(logUniform(r, 8, 9.5)).String()
	}
	st.PrevReward = types.RewardPrice{Time: 0, AmountBIP: "350", AmountUSDT: "1", Off: false, Reward: pip(float64(20 + r.Intn(300))).String()}
	if g.USDT {
		st.PrevReward.AmountBIP = st.Pools[0].Reserve0
		st.PrevReward.AmountUSDT = st.Pools[0].Reserve1
		if r.Intn(3) == 0 {
			st.PrevReward.Off = true
			st.PrevReward.Reward = pip(float64(10 * r.Intn(8))).String()
		}
	}
	if g.PriceCoin && g.USDT {
		st.Commission.Coin = usdt.c.ID
	}
	if g.PriceSwarm {
		priceSwarm(rand.New(rand.NewSource(r.Int63())), &st.Commission)
	}
	return st
}

// priceSwarm: no check may depend on one price table: a few entries become free, odd, dearer or cheaper.
func priceSwarm(pr *rand.Rand, c *types.Commission) {
	rv := reflect.ValueOf(c).Elem()
	var idx []int
	for i := 0; i < rv.NumField(); i++ {
		if rv.Field(i).Kind() == reflect.String {
			idx = append(idx, i)
		}
	}
	for j, n := 0, 1+pr.Intn(8); j < n; j++ {
		f := rv.Field(idx[pr.Intn(len(idx))])
		v := bi(f.String())
		if v == nil {
			continue
		}
		switch pr.Intn(4) {
		case 0:
			v = new(big.Int)
		case 1:
			v = new(big.Int).Mul(v, big.NewInt(int64(2+pr.Intn(9))))
		case 2:
			v = new(big.Int).Div(v, big.NewInt([]int64{10, 1000, 1000000}[pr.Intn(3)]))
		case 3:
			v = new(big.Int).Add(v, big.NewInt(int64(1+pr.Intn(999))))
		}
		f.SetString(v.String())
	}
}

// ---------------- operation generation ----------------

// Profile steers the random generation of operations and faults.
type Profile struct {
	W          map[string]int // op kind weights
	TxMin      int
	TxMax      int
	PAbsent    float64 // per validator per block
	PStreak    float64 // start an absence streak for one validator
	PEvidence  float64 // per block
	PBadNonce  float64
	PBadSig    float64
	PMultisig  float64
	PDup       float64 // redeliver / malleate / mutate
	PGarbage   float64
	PZeroGP    float64
	PGasCustom float64
	PPayload   float64
	PClockJump float64
	PWrongChain float64
	PBigAmt    float64 // overdraw / extreme amounts
	PRestart   float64
	EvidenceOnPayout bool
}

var allKinds = []string{"send", "multisend", "sell", "sellall", "buy", "createcoin", "recreatecoin", "createtoken", "recreatetoken",
	"editcoinowner", "mint", "burn", "declare", "delegate", "unbond", "move", "seton", "setoff", "editcand", "editcandpk", "editcandcomm",
	"createmultisig", "editmultisig", "sethalt", "voteupdate", "votecomm", "createpool", "addliq", "remliq", "sellpool", "buypool",
	"sellallpool", "addorder", "remorder", "lockstake", "lock", "redeem", "pricevote", "unknowntype", "sellusdt", "sellbip", "dustorder", "fillorder", "buyheadroom", "remdust", "sellheadroom"}

// GeneralProfile exercises every transaction type with modest fault rates.
func GeneralProfile() Profile {
	w := map[string]int{}
	for _, k := range allKinds {
		w[k] = 3
	}
	for _, k := range []string{"send", "delegate", "unbond", "sellpool", "buypool", "addorder", "sell", "buy", "addliq", "remliq"} {
		w[k] = 8
	}
	w["sethalt"], w["voteupdate"], w["pricevote"], w["unknowntype"], w["editcandpk"] = 0, 0, 1, 1, 1
	w["dustorder"], w["fillorder"] = 2, 4
	w["buyheadroom"] = 2
	w["remdust"] = 1
	w["sellheadroom"] = 2
	return Profile{W: w, TxMin: 0, TxMax: 8, PAbsent: 0.03, PStreak: 0.02, PEvidence: 0.02, PBadNonce: 0.04, PBadSig: 0.03, PMultisig: 0.05,
		PDup: 0.04, PGarbage: 0.02, PZeroGP: 0.02, PGasCustom: 0.2, PPayload: 0.1, PClockJump: 0.03, PWrongChain: 0.01, PBigAmt: 0.12}
}

func (p *Profile) pick(r *rand.Rand) string {
	tot := 0
	for _, k := range allKinds {
		tot += p.W[k]
	}
	if tot == 0 {
		return "send"
	}
	x := r.Intn(tot)
	for _, k := range allKinds {
		x -= p.W[k]
		if x < 0 {
			return k
		}
	}
	return "send"
}

func genAmt(r *rand.Rand, p *Profile) Amt {
	if r.Float64() < p.PBigAmt {
		switch r.Intn(7) {
		case 0:
			return Amt{Mode: 2}
		case 1:
			return Amt{Mode: 3}
		case 2:
			return Amt{Mode: 1, M: uint64(1001 + r.Intn(3000))}
		case 3:
			return Amt{Mode: 4, M: uint64(r.Intn(3))}
		case 4:
			return Amt{Mode: 5, M: uint64(r.Intn(3))}
		case 5:
			return Amt{Mode: 0, M: uint64(1 + r.Intn(9)), E: r.Intn(31)}
		default:
			return Amt{Mode: 1, M: 1000}
		}
	}
	if r.Intn(4) == 0 {
		return Amt{Mode: 0, M: uint64(1 + r.Intn(999)), E: 15 + r.Intn(7)}
	}
	return Amt{Mode: 1, M: uint64(1 + r.Intn(r.Intn(600)+1))}
}

// EvSel selects the target of a piece of byzantine evidence.
type EvSel struct {
	Kind int   `json:"kind"` // 0 current validator idx, 1 candidate idx (any status), 2 unknown address
	Idx  int64 `json:"idx"`
}

// BlockOp is one block of a scenario.
type BlockOp struct {
	Dt        int64   `json:"dt"`                   // seconds since previous block
	Absent    []int   `json:"absent,omitempty"`     // indexes into the voting set
	AllAbsent bool    `json:"all_absent,omitempty"` // nobody signed
	NoVotes   bool    `json:"no_votes,omitempty"`   // empty vote list
	Evidence  []EvSel `json:"evidence,omitempty"`
	Ops       []Op    `json:"ops,omitempty"`
	Restart   bool    `json:"restart,omitempty"` // restart the subject node before this block
	Crash     int     `json:"crash,omitempty"`   // crash at k-th write of this block's commit (subject)
	Snapshot  bool    `json:"snapshot,omitempty"`
	Fork      bool    `json:"fork,omitempty"` // export->import fork after this block
	Probe     bool    `json:"probe,omitempty"`
	ExtraVotes []int64 `json:"extra_votes,omitempty"` // votes from addresses that are not validators
	DupVote   bool    `json:"dup_vote,omitempty"`    // first vote entry repeated
	TimeBack  int64   `json:"time_back,omitempty"`   // header time this many seconds before the previous block (non-monotone)
	Queries   []int64 `json:"queries,omitempty"`
}

// GenOp draws one op.
func GenOp(r *rand.Rand, p *Profile, nAcct int) Op {
	if r.Float64() < p.PGarbage {
		n := r.Intn(60)
		if r.Intn(10) == 0 {
			n = r.Intn(18000)
		}
		b := make([]byte, n)
		r.Read(b)
		return Op{K: "raw", Raw: b}
	}
	if r.Float64() < p.PDup {
		k := []string{"redeliver", "redeliver", "malleate", "mutate"}[r.Intn(4)]
		return Op{K: k, Ref: r.Intn(12), Mut: r.Intn(100000)}
	}
	op := Op{K: p.pick(r), A: r.Intn(nAcct)}
	for i := 0; i < 7; i++ {
		x := int64(r.Intn(1000))
		if r.Intn(25) == 0 {
			x = -int64(1 + r.Intn(100))
		}
		op.X = append(op.X, x)
	}
	switch op.K {
	case "lock", "sethalt", "voteupdate", "votecomm":
		op.X[1] = int64(1 + r.Intn(12))
		if r.Intn(10) == 0 {
			op.X[1] = -int64(r.Intn(3))
		}
		if op.K == "lock" && r.Intn(5) == 0 {
			// a long-dated lock: due far beyond the unbond period of either chain id
			op.X[1] = int64(520000 + r.Intn(3000000))
		}
	case "redeem":
		if r.Intn(3) == 0 {
			op.X[0] = -1
		}
		op.X[4] = int64(r.Intn(30)) - 2
		op.X[5] = int64(r.Intn(64))
		op.X[6] = int64(r.Intn(16))
	}
	for i := 0; i < 3; i++ {
		op.V = append(op.V, genAmt(r, p))
	}
	switch op.K {
	case "sell", "sellall", "sellpool", "sellallpool":
		// minimum to buy: mostly zero
		if r.Intn(5) > 0 {
			op.V[1] = Amt{Mode: 2}
		}
	case "buy", "buypool":
		if r.Intn(5) > 0 {
			op.V[1] = Amt{Mode: 1, M: 1000} // max sell = whole balance
		}
		op.V[0] = Amt{Mode: 1, M: uint64(1 + r.Intn(50))}
		switch r.Intn(30) {
		case 0:
			op.V[0] = Amt{Mode: 1, M: 1000} // exactly the whole reserve of the coin bought
		case 1:
			op.V[0] = Amt{Mode: 4, M: 1} // one unit more than the reserve
		case 2:
			op.V[0] = Amt{Mode: 5, M: 1} // one unit less
		}
	case "addorder":
		op.V[1] = Amt{Mode: 1, M: uint64(700 + r.Intn(800))}
		if r.Intn(5) < 2 {
			op.V[1] = Amt{Mode: 6, M: uint64(900 + r.Intn(500))}
		}
	case "remliq":
		op.V[1], op.V[2] = Amt{Mode: 2}, Amt{Mode: 2}
	case "dustorder":
		// volume just above the minimum order volume (1e10): partial fills leave dust remainders
		op.V[0] = Amt{Mode: 0, M: uint64(10000000000 + r.Int63n(40000000000))}
		if r.Intn(4) == 0 {
			op.V[0] = Amt{Mode: 0, M: uint64(1 + r.Intn(5000)), E: 15}
		}
	case "fillorder":
		// per-mille of what the chosen order wants: below, at and beyond a complete fill
		op.V[0] = Amt{Mode: 1, M: uint64([]int{300, 700, 950, 999, 1000, 1001, 1003, 1010, 1500}[r.Intn(9)])}
		if r.Intn(3) == 0 {
			op.V[0] = Amt{Mode: 1, M: uint64(200 + r.Intn(1400))}
		}
		op.V[1] = Amt{Mode: 2}
	case "createcoin", "recreatecoin":
		op.V[1] = Amt{Mode: 0, M: uint64(10000 + r.Intn(50000)), E: 18}
		op.V[0] = Amt{Mode: 0, M: uint64(1 + r.Intn(100000)), E: 18}
		op.V[2] = Amt{Mode: 1, M: uint64(1000 + r.Intn(100000))}
	case "createtoken", "recreatetoken":
		op.V[0] = Amt{Mode: 0, M: uint64(1 + r.Intn(100000)), E: 18}
		op.V[2] = Amt{Mode: 1, M: uint64(1000 + r.Intn(100000))}
	case "voteupdate":
		op.S = []string{"v310", "v320", "v330", "v340", "v300"}[r.Intn(5)]
	}
	if r.Float64() < p.PGasCustom {
		op.G = int64(1 + r.Intn(20))
	}
	if r.Float64() < p.PZeroGP {
		op.ZGP = true
	} else if r.Intn(6) == 0 {
		op.GP = uint32(1 + r.Intn(50))
		if r.Intn(20) == 0 {
			op.GP = ^uint32(0)
		}
	}
	if r.Float64() < p.PBadNonce {
		op.NM = 1 + r.Intn(4)
	}
	if r.Float64() < p.PBadSig {
		op.SM = 1 + r.Intn(4)
	}
	if r.Float64() < p.PPayload {
		op.PL = r.Intn(200)
		if r.Intn(10) == 0 {
			op.PL = 1000 + r.Intn(9300)
		}
		if r.Intn(5) == 0 {
			op.SD = r.Intn(130)
		}
	}
	if r.Float64() < p.PWrongChain {
		op.CH = 1
	}
	if r.Float64() < p.PMultisig {
		n := 1 + r.Intn(4)
		ms := &MultiSel{Addr: r.Intn(8)}
		for i := 0; i < n; i++ {
			ms.Signers = append(ms.Signers, r.Intn(nAcct))
		}
		if r.Intn(15) == 0 {
			for i := 0; i < 33; i++ {
				ms.Signers = append(ms.Signers, i)
			}
		}
		if r.Intn(5) == 0 {
			ms.Twice = true
		}
		op.MS = ms
	}
	return op
}

// GenBlocks draws a block schedule.
func GenBlocks(r *rand.Rand, p *Profile, nBlocks, nAcct, nVal int, period uint64, firstHeight int64) []BlockOp {
	var out []BlockOp
	streak := map[int]int{}
	for b := 0; b < nBlocks; b++ {
		h := uint64(firstHeight) + uint64(b)
		bo := BlockOp{Dt: int64(4 + r.Intn(4))}
		if r.Float64() < p.PClockJump {
			switch r.Intn(4) {
			case 0:
				bo.Dt = int64(3600 * (1 + r.Intn(30)))
			case 1:
				bo.Dt = int64(86400 * (1 + r.Intn(3)))
			case 2:
				bo.Dt = int64(60 * (1 + r.Intn(59)))
			default:
				bo.Dt = 0
			}
		}
		if r.Float64() < p.PStreak {
			streak[r.Intn(nVal+1)] = 8 + r.Intn(20)
		}
		for i := 0; i < nVal+2; i++ {
			if streak[i] > 0 {
				streak[i]--
				bo.Absent = append(bo.Absent, i)
			} else if r.Float64() < p.PAbsent {
				bo.Absent = append(bo.Absent, i)
			}
		}
		if r.Float64() < p.PAbsent/4 {
			bo.AllAbsent = true
		}
		pe := p.PEvidence
		if p.EvidenceOnPayout && period > 0 && h%period == 0 {
			pe *= 5
		}
		if r.Float64() < pe {
			n := 1
			if r.Intn(5) == 0 {
				n = 2
			}
			for i := 0; i < n; i++ {
				bo.Evidence = append(bo.Evidence, EvSel{Kind: []int{0, 0, 0, 1, 1, 2}[r.Intn(6)], Idx: int64(r.Intn(50))})
			}
		}
		n := p.TxMin
		if p.TxMax > p.TxMin {
			n += r.Intn(p.TxMax - p.TxMin + 1)
		}
		for i := 0; i < n; i++ {
			op := GenOp(r, p, nAcct)
			bo.Ops = append(bo.Ops, op)
			if op.K == "addorder" && len(op.V) > 1 && op.V[1].Mode == 6 && r.Intn(2) == 0 {
				// a second maker at exactly the same price on the same side: consecutive ids
				tw := op
				tw.X = append([]int64(nil), op.X...)
				tw.V = append([]Amt(nil), op.V...)
				tw.A = r.Intn(nAcct)
				tw.NM, tw.SM, tw.MS, tw.ZGP = 0, 0, nil, false
				bo.Ops = append(bo.Ops, tw)
			}
			if op.K == "redeem" && len(op.X) > 4 && op.X[0] < 0 && r.Intn(3) == 0 {
				// a fresh check that expires with this very block, presented a second time in the block
				// (by another account with its own proof, or by the same one with the next nonce)
				bo.Ops[len(bo.Ops)-1].X[4] = 0
				tw := GenOp(r, p, nAcct)
				tw.K, tw.Raw, tw.Ref = "redeem", nil, 0
				if len(tw.X) < 7 {
					tw.X = make([]int64, 7)
				}
				for len(tw.V) < 3 {
					tw.V = append(tw.V, Amt{})
				}
				tw.X[0], tw.X[5], tw.X[6] = 999999, 0, 0
				tw.NM, tw.SM, tw.MS, tw.ZGP, tw.CH = 0, 0, nil, false, 0
				bo.Ops = append(bo.Ops, tw)
			}
			if op.K == "fillorder" && r.Intn(3) == 0 {
				// the same order is partially filled a second time in the same block
				tw := op
				tw.X = append([]int64(nil), op.X...)
				tw.V = append([]Amt(nil), op.V...)
				tw.A = r.Intn(nAcct)
				tw.V[0] = Amt{Mode: 1, M: uint64(100 + r.Intn(500))}
				tw.NM, tw.SM, tw.MS, tw.ZGP, tw.CH = 0, 0, nil, false, 0
				bo.Ops[len(bo.Ops)-1].V[0] = Amt{Mode: 1, M: uint64(100 + r.Intn(400))}
				bo.Ops = append(bo.Ops, tw)
			}
			if op.K == "fillorder" && r.Intn(4) == 0 {
				// the owner cancels the very order that was just (partially) filled, in the same block
				rm := GenOp(r, p, nAcct)
				rm.K, rm.Raw, rm.Ref = "remorder", nil, 0
				if len(rm.X) == 0 {
					rm.X = make([]int64, 7)
				}
				rm.X[0], rm.X[3] = op.X[0], 0
				rm.NM, rm.SM, rm.MS, rm.ZGP, rm.CH = 0, 0, nil, false, 0
				bo.Ops = append(bo.Ops, rm)
			}
		}
		if r.Float64() < p.PRestart {
			bo.Restart = true
		}
		out = append(out, bo)
	}
	return out
}
