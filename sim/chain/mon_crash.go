package chain

import (
	"bytes"
	"fmt"
	"math/rand"
	"sort"
	"strings"

	"chainsim/simdb"
)

// MonC10 enumerates, for selected blocks of a finished reference run, every prefix of the durable
// writes of Commit: a fresh node over a clone of the disk executes the block, dies before the k-th
// write, is restarted, goes through Tendermint's handshake decision table and must end up exactly
// where the uncrashed reference is.
type MonC10 struct {
	NopMonitor
	All      bool // every block (thorough) or a biased sample
	After    int  // blocks to run after recovery
	classes  map[string]bool
	points   int
	blocksEnumerated int
}

func writeClass(r simdb.WriteRec) string {
	switch r.Store {
	case "app":
		return "app/" + r.Key
	case "events":
		if r.Kind == "batch" {
			return "events/batch"
		}
		switch {
		case r.Key == "addresses":
			return "events/address-count"
		case r.Key == "pubKeys":
			return "events/pubkey-count"
		case strings.HasPrefix(r.Key, "address"):
			return "events/address-entry"
		case strings.HasPrefix(r.Key, "pubKey"):
			return "events/pubkey-entry"
		case len(r.Key) == 4:
			return "events/height-record"
		}
		return "events/side-table"
	case "state":
		return fmt.Sprintf("state/%s", r.Kind)
	}
	return r.Store + "/" + r.Kind
}

func (m *MonC10) Genesis(w *World) {
	w.KeepLogs = true
	w.KeepDisks = true
	m.classes = map[string]bool{}
	if m.After == 0 {
		m.After = 3
	}
}

// execUpToCommit runs BeginBlock..EndBlock of a recorded request on a node.
func execUpToCommit(n *Node, req BlockReq) (*BlockRes, bool) {
	res := &BlockRes{Height: req.Height}
	var stopped bool
	if stopped, res.Err = n.Begin(req); res.Err != nil || stopped {
		res.Stopped = stopped
		return res, false
	}
	for _, tx := range req.Txs {
		r, cerr := n.Deliver(tx)
		if cerr != nil {
			res.Err = cerr
			return res, false
		}
		res.Deliver = append(res.Deliver, r)
	}
	if res.End, stopped, res.Err = n.End(req.Height); res.Err != nil || stopped {
		res.Stopped = stopped
		return res, false
	}
	return res, true
}

func (m *MonC10) Finish(w *World) {
	n := len(w.ReqLog)
	if n < 2 {
		return
	}
	pinH, pinK := w.Sc.Params["crash_height"], w.Sc.Params["crash_k"]
	var idx []int
	for i := 1; i < n; i++ { // block 0 has no "disk before" other than genesis; the restart twin of genesis is outside C09/C10
		idx = append(idx, i)
	}
	if pinH != 0 {
		idx = nil
		for i := 1; i < n; i++ {
			if w.ReqLog[i].Height == pinH {
				idx = []int{i}
			}
		}
	} else if !m.All {
		// biased sample: payout / price / validator-update blocks, blocks with events, plus a few others
		r := rand.New(rand.NewSource(w.Sc.Seed))
		var pick []int
		for _, i := range idx {
			h := uint64(w.ReqLog[i].Height)
			p := w.Sc.Node.Period
			special := h%p == 0 || h%p == 1 || h%p == p/2 || len(w.ResLog[i].End.ValidatorUpdates) > 0 || len(w.ReqLog[i].Evidence) > 0
			if (special && r.Intn(3) == 0) || r.Intn(12) == 0 {
				pick = append(pick, i)
			}
		}
		if len(pick) > 8 {
			r.Shuffle(len(pick), func(a, b int) { pick[a], pick[b] = pick[b], pick[a] })
			pick = pick[:8]
			sort.Ints(pick)
		}
		idx = pick
	}
	for _, i := range idx {
		if w.Viol != nil {
			return
		}
		m.enumerateBlock(w, i, pinK)
	}
}

func (m *MonC10) fail(w *World, class, wclass string, h int64, k int, detail string) {
	if w.Sc.Params == nil {
		w.Sc.Params = map[string]int64{}
	}
	w.Sc.Params["crash_height"], w.Sc.Params["crash_k"] = h, int64(k)
	w.Report("C10", "crash-recovery", class+"@"+wclass, fmt.Sprintf("crash before durable write #%d (%s) of Commit(%d): %s", k, wclass, h, detail), h)
}

func (m *MonC10) enumerateBlock(w *World, i int, pinK int64) {
	req := w.ReqLog[i]
	h := req.Height
	before := w.DiskAt[h-1]
	if before == nil {
		return
	}
	// dry run on a fresh node to learn the writes of Commit(h)
	d0 := before.Clone()
	n0, cerr := OpenNode(d0, w.Sc.Node)
	if cerr != nil {
		w.Report("C07", "no-panic", "restart:"+cerr.Call+"@"+cerr.Site, cerr.Error(), h)
		return
	}
	_, ok := execUpToCommit(n0, req)
	if !ok {
		n0.Release()
		return
	}
	pre := d0.Seq()
	d0.LogWrites(true)
	hash0, cerr := n0.Commit()
	n0.Release()
	if cerr != nil {
		return
	}
	if !bytes.Equal(hash0, w.ResLog[i].Hash) {
		// a freshly opened node disagrees with the reference without any crash: C09's business
		w.Report("C09", "restart-equivalence", "app-hash", fmt.Sprintf("fresh node over disk of height %d commits %x for block %d, reference %x", h-1, hash0, h, w.ResLog[i].Hash), h)
		return
	}
	log := d0.TakeLog()
	W := int(d0.Seq() - pre)
	m.blocksEnumerated++
	if hh := req.Time.UTC().Hour(); uint64(h)%w.Sc.Node.Period == 1 && hh >= 12 && hh < 15 {
		w.Probe("c10_block_in_price_update_window_enumerated")
	}
	if len(req.Txs) > 0 {
		w.Probe("c10_block_with_txs_enumerated")
	}
	for k := 1; k <= W+1; k++ { // k = W+1: every write done, the process dies right after Commit returns
		if pinK != 0 && int64(k) != pinK {
			continue
		}
		wc := "after-last-write"
		if k-1 < len(log) {
			wc = writeClass(log[k-1])
		}
		m.classes[wc] = true
		m.points++
		w.Probe("c10_crash_point")
		w.Fault("crash_in_commit")
		if !m.crashAt(w, i, k, wc) {
			return
		}
	}
}

// crashAt runs one crash point; returns false when a violation was reported.
func (m *MonC10) crashAt(w *World, i, k int, wc string) bool {
	req := w.ReqLog[i]
	h := req.Height
	d := w.DiskAt[h-1].Clone()
	n, cerr := OpenNode(d, w.Sc.Node)
	if cerr != nil {
		return true
	}
	if _, ok := execUpToCommit(n, req); !ok {
		n.Release()
		return true
	}
	d.CrashAt(uint64(k))
	_, cerr = n.Commit()
	n.Release()
	if cerr != nil && !cerr.Crash {
		m.fail(w, "panic-instead-of-crash", wc, h, k, cerr.Error())
		return false
	}
	// cerr == nil: the commit completed (k beyond the last write); the process dies right after
	// the process is dead; a new one starts over what reached the disk
	d2 := d.Reopen()
	n2, cerr := OpenNode(d2, w.Sc.Node)
	if cerr != nil {
		m.fail(w, "cannot-start", wc, h, k, "node does not start after the crash: "+cerr.Error()+"\n"+trimStack(cerr.Stack))
		return false
	}
	defer n2.Release()
	ah, ahash, cerr := n2.Info()
	if cerr != nil {
		m.fail(w, "info-panics", wc, h, k, cerr.Error())
		return false
	}
	first := w.ReqLog[0].Height
	// Tendermint's handshake (consensus/replay.go): store height = h, state height = h-1.
	switch {
	case ah > h:
		m.fail(w, "app-ahead-of-store", wc, h, k, fmt.Sprintf("Info reports height %d but the block store only has %d: Tendermint refuses to start", ah, h))
		return false
	case ah == h:
		// Tendermint does not call the app; it trusts the reported hash for the next header
		if !bytes.Equal(ahash, w.ResLog[i].Hash) {
			m.fail(w, "reports-h-with-wrong-hash", wc, h, k, fmt.Sprintf("Info reports height %d with app hash %x, the uncrashed node has %x", ah, ahash, w.ResLog[i].Hash))
			return false
		}
		w.Probe("c10_recovered_without_replay")
	case ah < first-1:
		m.fail(w, "height-not-replayable", wc, h, k, fmt.Sprintf("Info reports height %d, below the chain's first block %d", ah, first))
		return false
	default:
		// replay blocks ah+1..h on the real app
		for j := 0; j <= i; j++ {
			if w.ReqLog[j].Height <= ah {
				continue
			}
			res := n2.ExecBlock(w.ReqLog[j], nil)
			if res.Err != nil {
				m.fail(w, "replay-panics", wc, h, k, fmt.Sprintf("replaying block %d after the crash: %v\n%s", w.ReqLog[j].Height, res.Err, trimStack(res.Err.Stack)))
				return false
			}
			if cls, dd := CompareBlock(&w.ResLog[j], &res); cls != "" {
				m.fail(w, "replay-"+cls, wc, h, k, fmt.Sprintf("replayed block %d differs from the uncrashed node (app reported height %d): %s", w.ReqLog[j].Height, ah, dd))
				return false
			}
		}
		if ah < h-1 {
			w.Probe("c10_recovered_far_behind")
		}
		w.Probe("c10_recovered_by_replay")
	}
	// later blocks and queries must match the uncrashed node
	last := i
	for j := i + 1; j < len(w.ReqLog) && j <= i+m.After; j++ {
		res := n2.ExecBlock(w.ReqLog[j], nil)
		if res.Err != nil {
			m.fail(w, "later-block-panics", wc, h, k, fmt.Sprintf("block %d after recovery: %v\n%s", w.ReqLog[j].Height, res.Err, trimStack(res.Err.Stack)))
			return false
		}
		if cls, dd := CompareBlock(&w.ResLog[j], &res); cls != "" {
			m.fail(w, "later-"+cls, wc, h, k, fmt.Sprintf("block %d after recovery differs from the uncrashed node: %s", w.ReqLog[j].Height, dd))
			return false
		}
		last = j
	}
	lh := w.ReqLog[last].Height
	var evh []uint64
	for j := i; j <= last; j++ {
		evh = append(evh, uint64(w.ReqLog[j].Height))
	}
	if ref := w.DiskAt[lh]; ref != nil {
		if cls, dd := DiskStateDiff(ref, d2, uint64(lh), evh, !w.Sc.Node.ValidatorMode); cls != "" {
			m.fail(w, "state-"+cls, wc, h, k, fmt.Sprintf("durable state at height %d differs from the uncrashed node: %s", lh, dd))
			return false
		}
	}
	return true
}

func init() {
	mk := func(all bool) func(sc *Scenario) []Monitor {
		return func(sc *Scenario) []Monitor {
			return []Monitor{&MonC10{All: all || sc.Params["c10_all"] == 1}}
		}
	}
	register(&PropSpec{ID: "C10", Level: "fault_enumeration",
		Rule: "for a seeded history, for each selected block h (all blocks when c10_all, otherwise a sample biased to payout / price-update / validator-update / evidence blocks) and for EVERY k in 1..W_h (W_h = number of durable writes of Commit(h), measured by a dry run): execute h on a fresh node over a clone of the disk, die before write k, restart, apply Tendermint's handshake table (store height h, state height h-1), replay what Tendermint would resend, then run the following blocks and compare responses, hashes and durable state with the uncrashed reference; distinct non-trivial case = distinct write class at which the crash was placed",
		Make: func(r *rand.Rand, seed int64, chain int, tier string) *Scenario {
			flavour := r.Intn(5)
			p := flavourProfile(flavour)
			p.PClockJump = 0.08
			sc := baseScenario("C10", r, seed, chain, tier, p, func(g *GenCfg, n *NodeCfg) { flavourGen(r, flavour, g, n) })
			if flavour == 3 {
				steerPriceWindow(r, sc, false)
			}
			n := 16 + r.Intn(24)
			if tier == "thorough" {
				n = 30 + r.Intn(30)
				sc.Params = map[string]int64{"c10_all": 1}
			}
			if len(sc.Blocks) > n {
				sc.Blocks = sc.Blocks[:n]
			}
			return sc
		},
		Monitors: mk(false),
		Distinct: func(w *World) []string {
			for _, m := range w.Monitors {
				if c, ok := m.(*MonC10); ok {
					var out []string
					for k := range c.classes {
						out = append(out, k)
					}
					return out
				}
			}
			return nil
		},
		ExpectProbes: []string{"c10_crash_point", "c10_recovered_by_replay", "c10_recovered_without_replay", "c10_block_in_price_update_window_enumerated", "c10_block_with_txs_enumerated"},
	})
}
