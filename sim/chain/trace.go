package chain

import (
	"fmt"
	"os"

	abci "github.com/tendermint/tendermint/abci/types"
)

// TraceMon prints what happens in a run (development aid, enabled by SIM_TRACE=1; never part of a check).
type TraceMon struct{ NopMonitor }

func (TraceMon) AfterTx(w *World, b *BlockCtx, m *TxMeta, r abci.ResponseDeliverTx) {
	fmt.Fprintf(os.Stderr, "TRACE h=%d tx kind=%s type=%d sender=%s nonce=%d gascoin=%d code=%d log=%q data=%+v\n", b.Height, m.Kind, m.Type, m.Sender.String(), m.Nonce, m.GasCoin, r.Code, r.Log, m.Data)
	for _, ev := range r.Events {
		for _, a := range ev.Attributes {
			fmt.Fprintf(os.Stderr, "TRACE      %s=%s\n", a.Key, a.Value)
		}
	}
}

func (TraceMon) AfterBlock(w *World, b *BlockCtx) {
	if b.Cur == nil {
		return
	}
	if os.Getenv("SIM_TRACE") == "2" && b.Prev != nil {
		for _, d := range DiffFlat(Flatten(&b.Prev.Raw), Flatten(&b.Cur.Raw)) {
			fmt.Fprintf(os.Stderr, "TRACE h=%d diff %s: %s -> %s (%s)\n", b.Height, d.Path, d.Old, d.New, d.Num())
		}
	}
	for _, p := range b.Cur.Pools {
		fmt.Fprintf(os.Stderr, "TRACE h=%d pool %d coins %d/%d reserves %s / %s\n", b.Height, p.ID, p.Coin0, p.Coin1, p.Reserve0, p.Reserve1)
		for _, o := range p.Orders {
			fmt.Fprintf(os.Stderr, "TRACE      order %d sale=%v v0=%s v1=%s owner=%s h=%d\n", o.ID, o.IsSale, o.Volume0, o.Volume1, o.Owner.String(), o.Height)
		}
	}
}
