package chain

import (
	"fmt"
	"math/big"
	"math/rand"
	"sort"
	"strings"

	"github.com/MinterTeam/minter-go-node/coreV2/transaction"
	"github.com/MinterTeam/minter-go-node/coreV2/types"
	abci "github.com/tendermint/tendermint/abci/types"
)

func frozenKey(f *types.FrozenFund) string {
	ck := ""
	if f.CandidateKey != nil {
		ck = f.CandidateKey.String()
	}
	return fmt.Sprintf("%d/%s/%d/%d/%s/%d", f.Height, f.Address.String(), f.Coin, f.CandidateID, ck, f.MoveToCandidateID)
}

func frozenMap(s *Snap) map[string]*big.Int {
	m := map[string]*big.Int{}
	for i := range s.Raw.FrozenFunds {
		f := &s.Raw.FrozenFunds[i]
		k := frozenKey(f)
		if m[k] == nil {
			m[k] = new(big.Int)
		}
		if v := bi(f.Value); v != nil {
			m[k].Add(m[k], v)
		}
	}
	return m
}

// frozenCount is the number of frozen-fund items that share a key: the 5% cut is rounded down per
// item, so a key that merges n items may be up to n-1 units below floor(95%) of the sum.
func frozenCount(s *Snap) map[string]int64 {
	m := map[string]int64{}
	for i := range s.Raw.FrozenFunds {
		m[frozenKey(&s.Raw.FrozenFunds[i])]++
	}
	return m
}

func cutFloor(old *big.Int, items int64) *big.Int {
	exp := new(big.Int).Div(new(big.Int).Mul(old, big.NewInt(95)), big.NewInt(100))
	if items > 1 {
		exp.Sub(exp, big.NewInt(items-1))
	}
	return exp
}

// ---------------- C16: staked coins leave staking only on schedule ----------------

type MonC16 struct {
	NopMonitor
	expect  map[string]*big.Int // frozen key -> value the accepted transactions of this block must add
	classes map[string]bool
	unbondP, moveP uint64
}

func (m *MonC16) Genesis(w *World) {
	m.classes = map[string]bool{}
	m.unbondP, m.moveP = types.GetUnbondPeriod(), types.GetMovePeriod()
}

func (m *MonC16) BeforeBlock(w *World, b *BlockCtx) { m.expect = map[string]*big.Int{} }

func (m *MonC16) add(k string, v *big.Int) {
	if m.expect[k] == nil {
		m.expect[k] = new(big.Int)
	}
	m.expect[k].Add(m.expect[k], v)
}

func (m *MonC16) AfterTx(w *World, b *BlockCtx, tm *TxMeta, r abci.ResponseDeliverTx) {
	if tm.Garbage || tm.Malleated {
		return
	}
	h := uint64(b.Height)
	candID := func(pk types.Pubkey) (uint64, bool) {
		if c, ok := b.Prev.CandByPK[pk]; ok {
			return c.ID, true
		}
		return 0, false
	}
	switch d := tm.Data.(type) {
	case transaction.UnbondDataV3:
		if lock := lockedUntil(b.Prev, tm.Sender); lock > h && r.Code == 0 {
			w.Report("C16", "schedule", "unbond-while-locked", fmt.Sprintf("height %d: unbond by %s accepted although its stake is locked until block %d", b.Height, tm.Sender.String(), lock), b.Height)
			return
		}
		if r.Code != 0 {
			return
		}
		id, _ := candID(d.PubKey)
		pk := d.PubKey
		f := types.FrozenFund{Height: h + m.unbondP, Address: tm.Sender, CandidateKey: &pk, CandidateID: id, Coin: uint64(d.Coin)}
		m.add(frozenKey(&f), d.Value)
		m.classes["unbond"] = true
	case transaction.MoveStakeData:
		if r.Code != 0 {
			return
		}
		toID, ok := candID(d.ToPubKey)
		if !ok && !declaredThisBlock(b, d.ToPubKey) {
			w.Report("C16", "schedule", "move-to-missing-candidate", fmt.Sprintf("height %d: stake move by %s towards %s accepted although no such candidate exists", b.Height, tm.Sender.String(), d.ToPubKey.String()), b.Height)
			return
		}
		id, _ := candID(d.FromPubKey)
		pk := d.FromPubKey
		f := types.FrozenFund{Height: h + m.moveP, Address: tm.Sender, CandidateKey: &pk, CandidateID: id, Coin: uint64(d.Coin), MoveToCandidateID: toID}
		if ok {
			m.add(frozenKey(&f), d.Value)
		}
		m.classes["move"] = true
	case transaction.LockData:
		if r.Code != 0 {
			return
		}
		if uint64(d.DueBlock) <= h {
			w.Report("C16", "schedule", "lock-due-in-past", fmt.Sprintf("height %d: lock until block %d accepted", b.Height, d.DueBlock), b.Height)
			return
		}
		f := types.FrozenFund{Height: uint64(d.DueBlock), Address: tm.Sender, Coin: uint64(d.Coin)}
		m.add(frozenKey(&f), d.Value)
		m.classes["lock"] = true
	}
}

func lockedUntil(s *Snap, a types.Address) uint64 {
	for i := range s.Raw.Accounts {
		if s.Raw.Accounts[i].Address == a {
			return s.Raw.Accounts[i].LockStakeUntilBlock
		}
	}
	return 0
}

func declaredThisBlock(b *BlockCtx, pk types.Pubkey) bool {
	for i, mm := range b.Metas {
		if d, ok := mm.Data.(transaction.DeclareCandidacyData); ok && d.PubKey == pk && i < len(b.Res.Deliver) && b.Res.Deliver[i].Code == 0 {
			return true
		}
		if d, ok := mm.Data.(transaction.EditCandidatePublicKeyData); ok && d.NewPubKey == pk && i < len(b.Res.Deliver) && b.Res.Deliver[i].Code == 0 {
			return true
		}
	}
	return false
}

func (m *MonC16) AfterBlock(w *World, b *BlockCtx) {
	if b.Cur == nil || w.Viol != nil {
		return
	}
	h := uint64(b.Height)
	prev, cur := frozenMap(b.Prev), frozenMap(b.Cur)
	hasEvidence := len(b.Req.Evidence) > 0
	removal := len(b.Cur.Raw.DeletedCandidates) > len(b.Prev.Raw.DeletedCandidates)
	auth := authSet(w, b)
	// (1) nothing may stay frozen at or below the committed height
	for k := range cur {
		var fh uint64
		fmt.Sscanf(k, "%d/", &fh)
		if fh <= h {
			w.Report("C16", "schedule", "overdue-frozen-fund", fmt.Sprintf("height %d: frozen fund %s = %s is due at or before the committed height and was not released", b.Height, k, cur[k]), b.Height)
			return
		}
	}
	// (2) new or grown entries come from this block's accepted unbond/move/lock, punishment or removal
	for k, v := range cur {
		old := prev[k]
		if old == nil {
			old = new(big.Int)
		}
		grow := new(big.Int).Sub(v, old)
		if grow.Sign() <= 0 {
			continue
		}
		exp := m.expect[k]
		if exp == nil {
			exp = new(big.Int)
		}
		if grow.Cmp(exp) == 0 {
			continue
		}
		var fh uint64
		fmt.Sscanf(k, "%d/", &fh)
		if fh == h+m.unbondP && (hasEvidence || removal) {
			m.classes["protocol-unbond"] = true
			continue
		}
		w.Report("C16", "schedule", "unexplained-frozen-fund", fmt.Sprintf("height %d: frozen fund %s grew by %s, the accepted transactions of this block explain %s (unbond period %d, move period %d)", b.Height, k, grow, exp, m.unbondP, m.moveP), b.Height)
		return
	}
	for k, exp := range m.expect {
		got := new(big.Int)
		if cur[k] != nil {
			got.Set(cur[k])
		}
		if prev[k] != nil {
			got.Sub(got, prev[k])
		}
		if got.Cmp(exp) != 0 && !hasEvidence {
			w.Report("C16", "schedule", "missing-frozen-fund", fmt.Sprintf("height %d: accepted transactions should have frozen %s under %s, the export shows a change of %s", b.Height, exp, k, got), b.Height)
			return
		}
	}
	// (3)/(4) entries disappear or shrink only at maturity (or by the 5% cut of a punishment)
	matured := map[string]*big.Int{} // owner/coin -> released to balance
	for k, old := range prev {
		var fh uint64
		fmt.Sscanf(k, "%d/", &fh)
		now := cur[k]
		if now == nil {
			now = new(big.Int)
		}
		if now.Cmp(old) >= 0 {
			continue
		}
		seg := strings.Split(k, "/")
		if fh != h {
			// the 5% cut leaves floor(old*95/100)
			if hasEvidence && now.Cmp(cutFloor(old, frozenCount(b.Prev)[k])) >= 0 {
				m.classes["frozen-slashed"] = true
				continue
			}
			w.Report("C16", "schedule", "released-early", fmt.Sprintf("height %d: frozen fund %s went from %s to %s before its due block", b.Height, k, old, now), b.Height)
			return
		}
		owner, coin, moveTo := seg[1], seg[2], seg[5]
		if moveTo == "0" {
			mk := owner + "/" + coin
			if matured[mk] == nil {
				matured[mk] = new(big.Int)
			}
			matured[mk].Add(matured[mk], old)
			m.classes["released-to-balance"] = true
		} else {
			// a move reaches the target candidate: stake, pending update or waitlist entry grows
			got := new(big.Int)
			for _, pfx := range []string{"stake", "update", "waitlist"} {
				got.Add(got, flatDelta(b, fmt.Sprintf("%s/%s/%s/%s", pfx, moveTo, owner, coin)))
			}
			need := old
			if hasEvidence {
				// a move maturing in a punishment block is cut by 5% before it is delivered (like a release)
				need = cutFloor(old, frozenCount(b.Prev)[k])
			}
			if got.Cmp(need) < 0 && b.Cur.candByID(moveTo) != nil {
				w.Report("C16", "schedule", "move-not-delivered", fmt.Sprintf("height %d: move of %s coin %s by %s matured but candidate %s only gained %s", b.Height, old, coin, owner, moveTo, got), b.Height)
				return
			}
			if b.Cur.candByID(moveTo) == nil {
				w.Report("C16", "schedule", "move-target-gone", fmt.Sprintf("height %d: move of %s coin %s by %s matured towards candidate id %s, which does not exist", b.Height, old, coin, owner, moveTo), b.Height)
				return
			}
			m.classes["move-delivered"] = true
		}
	}
	for mk, v := range matured {
		seg := strings.Split(mk, "/")
		a := types.HexToAddress(seg[0])
		if auth[a] {
			continue // the owner also transacted in this block; its balance is judged by C03/C05
		}
		d := flatDelta(b, "bal/"+seg[0]+"/"+seg[1])
		if hasEvidence {
			// a fund maturing in a punishment block is cut by 5% before it is released
			v = new(big.Int).Div(new(big.Int).Mul(v, big.NewInt(95)), big.NewInt(100))
		}
		if d.Cmp(v) < 0 {
			w.Report("C16", "schedule", "release-not-credited", fmt.Sprintf("height %d: %s of coin %s matured for %s but its balance changed by %s", b.Height, v, seg[1], seg[0], d), b.Height)
			return
		}
	}
	w.Probe("c16_block_checked")
}

func (s *Snap) candByID(id string) *types.Candidate {
	for _, c := range s.Cands {
		if fmt.Sprint(c.ID) == id {
			return c
		}
	}
	return nil
}

// flatDelta returns new-old of one flattened path between the block's previous and current export.
func flatDelta(b *BlockCtx, path string) *big.Int {
	if b.flatPrev == nil {
		b.flatPrev, b.flatCur = Flatten(&b.Prev.Raw), Flatten(&b.Cur.Raw)
	}
	return Delta{Path: path, Old: b.flatPrev[path], New: b.flatCur[path]}.Num()
}

// ---------------- C17: validator set and powers follow the stake ranking ----------------

type MonC17 struct {
	NopMonitor
	classes map[string]bool
}

func (m *MonC17) Genesis(w *World) { m.classes = map[string]bool{} }

var minValidatorStake = pip(1000)

func (m *MonC17) AfterBlock(w *World, b *BlockCtx) {
	if b.Cur == nil || len(b.Updates) == 0 {
		return
	}
	const cap = 64
	type cand struct {
		pk    types.Pubkey
		stake *big.Int
	}
	var eligible []cand
	for _, c := range b.Cur.Cands {
		t := bi(c.TotalBipStake)
		if c.Status == 2 && t != nil && t.Cmp(minValidatorStake) >= 0 {
			eligible = append(eligible, cand{c.PubKey, t})
		}
	}
	set := b.Cur.Vals
	elig := map[types.Pubkey]*big.Int{}
	for _, e := range eligible {
		elig[e.pk] = e.stake
	}
	for pk := range set {
		if elig[pk] == nil {
			c := b.Cur.CandByPK[pk]
			st, tot := uint64(0), ""
			if c != nil {
				st, tot = c.Status, c.TotalBipStake
			}
			w.Report("C17", "validator-set", "ineligible-validator", fmt.Sprintf("height %d: %s is a validator after the update but its candidate has status %d and total stake %s", b.Height, pk.String(), st, tot), b.Height)
			return
		}
	}
	if len(eligible) <= cap {
		for _, e := range eligible {
			if set[e.pk] == nil {
				w.Report("C17", "validator-set", "eligible-left-out", fmt.Sprintf("height %d: candidate %s is online with stake %s but is not a validator (%d validators, %d eligible)", b.Height, e.pk.String(), e.stake, len(set), len(eligible)), b.Height)
				return
			}
		}
	} else {
		if len(set) != cap {
			w.Report("C17", "validator-set", "wrong-size", fmt.Sprintf("height %d: %d eligible candidates but %d validators", b.Height, len(eligible), len(set)), b.Height)
			return
		}
		minIn := (*big.Int)(nil)
		for pk := range set {
			if minIn == nil || elig[pk].Cmp(minIn) < 0 {
				minIn = elig[pk]
			}
		}
		for _, e := range eligible {
			if set[e.pk] == nil && e.stake.Cmp(minIn) > 0 {
				w.Report("C17", "validator-set", "not-top-ranked", fmt.Sprintf("height %d: %s with stake %s is outside while a validator has only %s", b.Height, e.pk.String(), e.stake, minIn), b.Height)
				return
			}
		}
		m.classes["more-than-cap"] = true
	}
	// powers
	total := new(big.Int)
	for pk := range set {
		total.Add(total, elig[pk])
	}
	got := map[string]int64{}
	for _, u := range b.Updates {
		got[string(u.PubKey.GetEd25519())] = u.Power
	}
	for pk := range set {
		exp := new(big.Int).Div(new(big.Int).Mul(elig[pk], big.NewInt(100000000)), total).Int64()
		if exp == 0 {
			exp = 1
		}
		if p, ok := got[string(pk[:])]; !ok || p != exp {
			w.Report("C17", "validator-set", "power", fmt.Sprintf("height %d: validator %s stake %s of %s: expected power %d, update list says %d (present %v)", b.Height, pk.String(), elig[pk], total, exp, p, ok), b.Height)
			return
		}
	}
	for k, p := range got {
		var pk types.Pubkey
		copy(pk[:], k)
		if set[pk] == nil && p != 0 {
			w.Report("C17", "validator-set", "update-for-non-validator", fmt.Sprintf("height %d: update list gives power %d to %s, which is not in the new set", b.Height, p, pk.String()), b.Height)
			return
		}
	}
	// what Tendermint will run with must be that set too (checked after the +2 delay by TM itself;
	// an update list it would refuse is reported by the world)
	m.classes[fmt.Sprintf("vals%d/elig%d", min(len(set), 8), min(len(eligible), 8))] = true
	w.Probe("c17_update_checked")
	m.limits(w, b)
	if w.Viol != nil {
		return
	}
	// candidates beyond the first 100 are removed, never a validator
	if len(b.Prev.Cands) > 100 || len(b.Cur.Cands) > 100 {
		w.Probe("c17_over_100_candidates")
	}
	// (not in the first block: InitChain re-elects validators after its commit, so the validator set in
	// force there is not the exported one - the same exclusion as for restart twins and probes)
	if len(b.Cur.Cands) > 100 && uint64(b.Height)%w.Sc.Node.Period == 0 && b.Height != w.Sc.InitialH {
		// whoever still ranks beyond the first 100 must have been a validator during this block
		for _, c := range b.Cur.Cands {
			if b.Prev.Vals[c.PubKey] != nil {
				continue
			}
			above := 0
			for _, o := range b.Cur.Cands {
				if bi(o.TotalBipStake).Cmp(bi(c.TotalBipStake)) > 0 {
					above++
				}
			}
			if above >= 100 {
				w.Report("C17", "validator-set", "candidate-beyond-100-kept", fmt.Sprintf("height %d: candidate %d (no validator) ranks behind %d candidates with a larger stake and remains after the recalculation (%d candidates)", b.Height, c.ID, above, len(b.Cur.Cands)), b.Height)
				return
			}
		}
		nonVal := 0
		for _, c := range b.Cur.Cands {
			if b.Prev.Vals[c.PubKey] == nil {
				nonVal++
			}
		}
		if nonVal > 100 {
			w.Report("C17", "validator-set", "more-than-100-candidates", fmt.Sprintf("height %d: %d candidates that were no validators remain after the recalculation", b.Height, nonVal), b.Height)
		}
	}
	for _, dc := range b.Cur.Raw.DeletedCandidates {
		if set[dc.PubKey] != nil {
			w.Report("C17", "validator-set", "validator-removed", fmt.Sprintf("height %d: deleted candidate %s is a validator", b.Height, dc.PubKey.String()), b.Height)
			return
		}
	}
}

// limits checks the 100-candidate and 1000-delegation rules at recalculation blocks.
func (m *MonC17) limits(w *World, b *BlockCtx) {
	h := uint64(b.Height)
	if h%w.Sc.Node.Period != 0 || b.Height == w.Sc.InitialH {
		return
	}
	unbondP := types.GetUnbondPeriod()
	fz := frozenMap(b.Cur)
	// candidates removed by ranking: all their stakes are unbonding, none of them was a validator
	for _, pc := range b.Prev.Cands {
		if b.Cur.candByID(fmt.Sprint(pc.ID)) != nil {
			continue
		}
		if len(b.Prev.Cands)+acceptedOfType(b, byte(transaction.TypeDeclareCandidacy)) <= 100 {
			w.Report("C17", "validator-set", "candidate-removed-below-limit", fmt.Sprintf("height %d: candidate %d removed although at most %d candidates exist", b.Height, pc.ID, len(b.Prev.Cands)+acceptedOfType(b, byte(transaction.TypeDeclareCandidacy))), b.Height)
			return
		}
		if b.Prev.Vals[pc.PubKey] != nil {
			w.Report("C17", "validator-set", "validator-removed", fmt.Sprintf("height %d: candidate %d was a validator and was removed by the 100-candidate limit", b.Height, pc.ID), b.Height)
			return
		}
		for _, st := range pc.Stakes {
			v := bi(st.Value)
			if v == nil || v.Sign() == 0 {
				continue
			}
			pk := pc.PubKey
			f := types.FrozenFund{Height: h + unbondP, Address: st.Owner, CandidateKey: &pk, CandidateID: pc.ID, Coin: st.Coin}
			if got := fz[frozenKey(&f)]; got == nil || got.Cmp(v) < 0 {
				w.Report("C17", "validator-set", "removed-candidate-stake-not-unbonded", fmt.Sprintf("height %d: candidate %d removed by ranking; stake %s of %s should be unbonding until %d, frozen funds show %v", b.Height, pc.ID, v, st.Owner.String(), h+unbondP, got), b.Height)
				return
			}
		}
		// the cut ranks by the stakes as recalculated in this block: a removed candidate (all stakes and
		// pending delegations in the base coin) never has more than a non-validator that stayed
		fresh, plain := new(big.Int), true
		for _, st := range pc.Stakes {
			if st.Coin != 0 {
				plain = false
			}
			fresh.Add(fresh, bi(st.Value))
		}
		for _, u := range pc.Updates {
			if u.Coin != 0 {
				plain = false
			}
			fresh.Add(fresh, bi(u.Value))
		}
		// (unbonds, moves and punishments of this very block change stakes before the cut: not judged)
		if plain && len(b.Req.Evidence) == 0 && acceptedOfType(b, byte(transaction.TypeUnbond))+acceptedOfType(b, byte(transaction.TypeMoveStake)) == 0 {
			for _, cc := range b.Cur.Cands {
				if b.Prev.Vals[cc.PubKey] != nil {
					continue
				}
				if kept := bi(cc.TotalBipStake); fresh.Cmp(kept) > 0 {
					w.Report("C17", "validator-set", "richer-candidate-removed", fmt.Sprintf("height %d: candidate %d with %s staked (pending delegations included) was removed by the 100-candidate limit while candidate %d with %s stays", b.Height, pc.ID, fresh, cc.ID, kept), b.Height)
					return
				}
			}
			w.Probe("c17_removed_candidate_rank_checked")
		}
		m.classes["candidate-removed-over-100"] = true
		w.Probe("c17_candidate_removed_over_100")
	}
	// full delegation slots: one incoming delegation against 1000 stakes
	for _, pc := range b.Prev.Cands {
		if len(pc.Stakes) < 1000 || len(pc.Updates) != 1 {
			continue
		}
		cc := b.Cur.candByID(fmt.Sprint(pc.ID))
		if cc == nil {
			continue
		}
		u := pc.Updates[0]
		if u.Coin != 0 {
			continue
		}
		has := false
		var minV *big.Int
		var minOwner types.Address
		for _, st := range pc.Stakes {
			if st.Owner == u.Owner && st.Coin == u.Coin {
				has = true
			}
			if v := bi(st.BipValue); st.Coin == 0 && (minV == nil || v.Cmp(minV) < 0) {
				minV, minOwner = v, st.Owner
			}
		}
		if has || minV == nil || ownerActedAddr(w, b, u.Owner) || ownerActedAddr(w, b, minOwner) {
			continue
		}
		uv := bi(u.Value)
		inStakes := func(c *types.Candidate, o types.Address) *big.Int {
			for _, st := range c.Stakes {
				if st.Owner == o && st.Coin == 0 {
					return bi(st.Value)
				}
			}
			return nil
		}
		wl := func(o types.Address) *big.Int {
			for _, x := range b.Cur.Raw.Waitlist {
				if x.Owner == o && x.CandidateID == pc.ID && x.Coin == 0 {
					return bi(x.Value)
				}
			}
			return nil
		}
		// Judged on the state after the block: the payout of the same block may have grown the stakes
		// before the slots were reassigned, so "smallest" is what the recalculation saw (>= the old values).
		_ = minOwner
		if len(cc.Stakes) > 1000 {
			w.Report("C17", "validator-set", "full-slots:more-than-1000", fmt.Sprintf("height %d: candidate %d has %d stakes", b.Height, pc.ID, len(cc.Stakes)), b.Height)
			return
		}
		staked, waiting := inStakes(cc, u.Owner), wl(u.Owner)
		won := staked != nil && staked.Cmp(uv) >= 0
		lost := waiting != nil && waiting.Cmp(uv) >= 0
		if won == lost {
			w.Report("C17", "validator-set", "full-slots:incoming-misplaced", fmt.Sprintf("height %d: candidate %d has 1000 stakes; incoming delegation %s of %s must end either as a stake or in the waitlist with its full value: stake %v, waitlist %v", b.Height, pc.ID, uv, u.Owner.String(), staked, waiting), b.Height)
			return
		}
		var minCur *big.Int
		for _, st := range cc.Stakes {
			if st.Owner == u.Owner && st.Coin == 0 {
				continue
			}
			if v := bi(st.BipValue); minCur == nil || v.Cmp(minCur) < 0 {
				minCur = v
			}
		}
		if lost {
			// it may only lose when it is smaller than every stake that kept its slot
			if minCur != nil && uv.Cmp(minCur) >= 0 {
				w.Report("C17", "validator-set", "full-slots:not-smaller-incoming-lost", fmt.Sprintf("height %d: candidate %d: incoming delegation %s of %s went to the waitlist although a stake of %s kept its slot", b.Height, pc.ID, uv, u.Owner.String(), minCur), b.Height)
				return
			}
			m.classes["full-slots-kept"] = true
		} else {
			// somebody lost the slot: in the waitlist with (at least) its full value, and not larger than
			// anything that stayed
			kicked := 0
			for _, st := range pc.Stakes {
				still := false
				for _, ct := range cc.Stakes {
					if ct.Owner == st.Owner && ct.Coin == st.Coin {
						still = true
					}
				}
				if still || ownerActedAddr(w, b, st.Owner) {
					continue
				}
				kicked++
				var got *big.Int
				for _, x := range b.Cur.Raw.Waitlist {
					if x.Owner == st.Owner && x.CandidateID == pc.ID && x.Coin == st.Coin {
						got = bi(x.Value)
					}
				}
				if got == nil || got.Cmp(bi(st.Value)) < 0 {
					w.Report("C17", "validator-set", "full-slots:loser-not-in-waitlist", fmt.Sprintf("height %d: candidate %d: the replaced stake %s (coin %d) of %s should be in the waitlist with its full value, waitlist shows %v", b.Height, pc.ID, st.Value, st.Coin, st.Owner.String(), got), b.Height)
					return
				}
				if st.Coin == 0 && minCur != nil && got.Cmp(minCur) > 0 && got.Cmp(uv) > 0 {
					w.Report("C17", "validator-set", "full-slots:larger-stake-replaced", fmt.Sprintf("height %d: candidate %d: stake %s of %s lost its slot although a stake of %s stayed and the incoming delegation is %s", b.Height, pc.ID, got, st.Owner.String(), minCur, uv), b.Height)
					return
				}
			}
			if kicked == 0 && len(pc.Stakes) >= 1000 && len(cc.Stakes) > len(pc.Stakes) {
				w.Report("C17", "validator-set", "full-slots:nobody-replaced", fmt.Sprintf("height %d: candidate %d had %d stakes and now has %d", b.Height, pc.ID, len(pc.Stakes), len(cc.Stakes)), b.Height)
				return
			}
			m.classes["full-slots-replaced"] = true
		}
		w.Probe("c17_full_slots_checked")
	}
}

func acceptedOfType(b *BlockCtx, t byte) int {
	n := 0
	for _, m := range b.Metas {
		if m.Code == 0 && m.Type == t {
			n++
		}
	}
	return n
}

func ownerActedAddr(w *World, b *BlockCtx, a types.Address) bool { return authSet(w, b)[a] }

// ---------------- C18: misbehaviour punished exactly and only once ----------------

type MonC18 struct {
	NopMonitor
	window  map[types.Pubkey]*[24]bool
	jailed  map[types.Pubkey]uint64
	classes map[string]bool
	jailP, unbondP uint64
}

func (m *MonC18) Genesis(w *World) {
	m.window, m.jailed, m.classes = map[types.Pubkey]*[24]bool{}, map[types.Pubkey]uint64{}, map[string]bool{}
	m.jailP, m.unbondP = types.GetJailPeriod(), types.GetUnbondPeriod()
	for pk := range w.Prev.Vals {
		m.window[pk] = &[24]bool{}
	}
}

func graceBlock(w *World, h uint64) bool {
	ih := uint64(w.Sc.InitialH - 1)
	if h >= ih && h <= ih+120 {
		return true
	}
	for _, v := range w.Node.App.UpdateVersions() {
		if h >= v.Height && h <= v.Height+120 {
			return true
		}
	}
	return false
}

func (m *MonC18) AfterTx(w *World, b *BlockCtx, tm *TxMeta, r abci.ResponseDeliverTx) {
	d, ok := tm.Data.(transaction.SetCandidateOnData)
	if !ok || tm.Garbage || tm.Malleated {
		return
	}
	if until := m.jailed[d.PubKey]; until != 0 {
		switch {
		case uint64(b.Height) < until && r.Code == 0:
			w.Report("C18", "punishment", "jailed-switched-on", fmt.Sprintf("height %d: candidate %s switched on although it is jailed until %d", b.Height, d.PubKey.String(), until), b.Height)
		case uint64(b.Height) < until:
			w.Probe("c18_jailed_switch_on_rejected")
		case r.Code == 0:
			w.Probe("c18_switch_on_after_jail")
		}
	}
}

func (m *MonC18) AfterBlock(w *World, b *BlockCtx) {
	if b.Cur == nil || w.Viol != nil {
		return
	}
	h := uint64(b.Height)
	// --- absences ---
	byAddr := map[types.TmAddress]types.Pubkey{}
	for pk := range b.Prev.Vals {
		byAddr[TmAddr(pk)] = pk
	}
	turnedOff := map[types.Pubkey]bool{} // switched off for absence in this very block, before the evidence is looked at
	evidenced := map[types.Pubkey]bool{}
	for _, e := range b.Req.Evidence {
		var a types.TmAddress
		copy(a[:], e.Validator.Address)
		if pk, ok := byAddr[a]; ok {
			evidenced[pk] = true
		}
	}
	for _, v := range b.Req.Votes {
		var a types.TmAddress
		copy(a[:], v.Validator.Address)
		pk, ok := byAddr[a]
		if !ok {
			continue
		}
		wnd := m.window[pk]
		if wnd == nil {
			wnd = &[24]bool{}
			m.window[pk] = wnd
		}
		wnd[h%24] = !v.SignedLastBlock
		n := 0
		for _, x := range wnd {
			if x {
				n++
			}
		}
		c := b.Cur.CandByPK[pk]
		if n > 12 {
			turnedOff[pk] = true
			m.window[pk] = &[24]bool{}
			if evidenced[pk] || c == nil {
				continue
			}
			if graceBlock(w, h) {
				m.classes["absent-in-grace"] = true
				continue
			}
			m.classes["absent-jailed"] = true
			if c.Status != 1 || c.JailedUntil != h+m.jailP {
				w.Report("C18", "punishment", "absence-not-punished", fmt.Sprintf("height %d: validator %s missed %d of the last 24 blocks outside a grace period: expected offline and jailed until %d, export shows status %d jailed until %d", b.Height, pk.String(), n, h+m.jailP, c.Status, c.JailedUntil), b.Height)
				return
			}
			if b.Cur.Vals[pk] != nil {
				w.Report("C18", "punishment", "absent-validator-kept", fmt.Sprintf("height %d: validator %s was switched off for absence but is still in the validator list", b.Height, pk.String()), b.Height)
				return
			}
			m.jailed[pk] = h + m.jailP
			w.Probe("c18_absence_punished")
		} else if pc := b.Prev.CandByPK[pk]; c != nil && pc != nil && pc.Status == 2 && c.Status == 1 && !evidenced[pk] && !ownerActed(w, b, pc) {
			w.Report("C18", "punishment", "punished-without-cause", fmt.Sprintf("height %d: validator %s has %d absences in the window (limit 12) and no transaction of its owner, yet it was switched off", b.Height, pk.String(), n), b.Height)
			return
		}
	}
	// validators that left the set lose their window
	for pk := range m.window {
		if b.Cur.Vals[pk] == nil {
			delete(m.window, pk)
		}
	}
	for pk := range b.Cur.Vals {
		if m.window[pk] == nil {
			m.window[pk] = &[24]bool{}
		}
	}
	// --- byzantine evidence ---
	// (not judged in the first block: the validator list the node runs with there was elected after
	// the genesis commit and is not what the genesis export shows)
	seen := map[types.Pubkey]bool{}
	for _, e := range b.Req.Evidence {
		if b.Height == w.Sc.InitialH {
			break
		}
		var a types.TmAddress
		copy(a[:], e.Validator.Address)
		// the candidate the evidence points at (validator or not)
		var target *types.Candidate
		for _, c := range b.Prev.Cands {
			if TmAddr(c.PubKey) == a {
				target = c
			}
		}
		if target == nil {
			m.classes["evidence-unknown"] = true
			continue
		}
		if seen[target.PubKey] {
			m.classes["evidence-repeated"] = true
			continue
		}
		seen[target.PubKey] = true
		isVal := b.Prev.Vals[target.PubKey] != nil
		after := b.Cur.candByID(fmt.Sprint(target.ID))
		if target.Status != 2 || !isVal || turnedOff[target.PubKey] {
			m.classes["evidence-ignored"] = true
			// nothing may change for an offline candidate / non-validator (apart from what its owner does)
			if after != nil && !ownerActed(w, b, target) {
				for _, s := range target.Stakes {
					d := flatDelta(b, fmt.Sprintf("stake/%d/%s/%d", target.ID, s.Owner.String(), s.Coin))
					if d.Sign() < 0 && !authSet(w, b)[s.Owner] && uint64(b.Height)%w.Sc.Node.Period != 0 {
						w.Report("C18", "punishment", "punished-while-offline", fmt.Sprintf("height %d: evidence against %s (status %d, validator %v) reduced the stake of %s by %s", b.Height, target.PubKey.String(), target.Status, isVal, s.Owner.String(), d), b.Height)
						return
					}
				}
			}
			continue
		}
		m.classes["evidence-punished"] = true
		for _, s := range target.Stakes {
			v := bi(s.Value)
			if v == nil || v.Sign() == 0 {
				continue
			}
			keep := new(big.Int).Div(new(big.Int).Mul(v, big.NewInt(95)), big.NewInt(100))
			pk := target.PubKey
			f := types.FrozenFund{Height: h + m.unbondP, Address: s.Owner, CandidateKey: &pk, CandidateID: target.ID, Coin: s.Coin}
			got := frozenMap(b.Cur)[frozenKey(&f)]
			prevF := frozenMap(b.Prev)[frozenKey(&f)]
			if got == nil {
				got = new(big.Int)
			}
			if prevF != nil {
				got = new(big.Int).Sub(got, prevF)
			}
			if got.Cmp(keep) < 0 || (got.Cmp(keep) != 0 && !authSet(w, b)[s.Owner]) {
				w.Report("C18", "punishment", "slash-amount", fmt.Sprintf("height %d: stake %s of %s (coin %d) at punished validator %s: expected %s (95%%, rounded down) frozen until %d, export shows %s", b.Height, v, s.Owner.String(), s.Coin, target.PubKey.String(), keep, h+m.unbondP, got), b.Height)
				return
			}
			if after != nil {
				// a delegation still pending as an update is not a stake yet: it is neither cut nor unbonded
				// and becomes the owner's new stake at the recalculation that follows the punishment
				flatDelta(b, "slashed") // make sure the flattened exports exist
				pend := b.flatPrev[fmt.Sprintf("update/%d/%s/%d", target.ID, s.Owner.String(), s.Coin)]
				if left := flatCurValue(b, fmt.Sprintf("stake/%d/%s/%d", target.ID, s.Owner.String(), s.Coin)); left != "" && left != "0" && left != pend && !authSet(w, b)[s.Owner] {
					w.Report("C18", "punishment", "stake-left", fmt.Sprintf("height %d: stake of %s at punished validator is still %s", b.Height, s.Owner.String(), left), b.Height)
					return
				}
			}
		}
		// unbonding funds from that candidate lose 5% too
		for k, old := range frozenMap(b.Prev) {
			seg := strings.Split(k, "/")
			var fh uint64
			fmt.Sscanf(seg[0], "%d", &fh)
			if seg[3] != fmt.Sprint(target.ID) || fh <= h || fh > h+m.unbondP {
				continue
			}
			exp := cutFloor(old, frozenCount(b.Prev)[k])
			now := frozenMap(b.Cur)[k]
			if now == nil {
				now = new(big.Int)
			}
			// "loses the rounded-up 5%": every item keeps exactly floor(95%). Only the keys of this block's own
			// due heights may also receive new value (the 95% remainders, unbonds and moves of this block).
			if fh != h+m.unbondP && fh != h+types.GetMovePeriod() {
				exact := new(big.Int)
				for i := range b.Prev.Raw.FrozenFunds {
					f := &b.Prev.Raw.FrozenFunds[i]
					if v := bi(f.Value); v != nil && frozenKey(f) == k {
						exact.Add(exact, new(big.Int).Div(new(big.Int).Mul(v, big.NewInt(95)), big.NewInt(100)))
					}
				}
				if now.Cmp(exact) != 0 {
					w.Report("C18", "punishment", "frozen-slash-amount", fmt.Sprintf("height %d: unbonding fund %s of punished candidate: %s before, every item keeps floor(95%%) = %s in all (the rounded-up 5%% is lost), export shows %s", b.Height, k, old, exact, now), b.Height)
					return
				}
				w.Probe("c18_frozen_cut_exact")
			}
			if now.Cmp(exp) < 0 {
				w.Report("C18", "punishment", "frozen-slash-amount", fmt.Sprintf("height %d: unbonding fund %s of punished candidate: %s before, expected at least %s after the 5%% cut, export shows %s", b.Height, k, old, exp, now), b.Height)
				return
			}
			if now.Cmp(old) >= 0 && old.Cmp(big.NewInt(20)) >= 0 && fh != h+m.unbondP {
				w.Report("C18", "punishment", "frozen-not-slashed", fmt.Sprintf("height %d: unbonding fund %s of punished candidate kept its full value %s", b.Height, k, old), b.Height)
				return
			}
		}
		// (a candidate that receives fresh delegations of at least 1000 base coin in the same block is
		// legitimately re-elected by the recalculation that follows; it stays online by design)
		if t := bi(flatCurValue(b, fmt.Sprintf("cand/%d/total", target.ID))); b.Cur.Vals[target.PubKey] != nil && (t == nil || t.Cmp(minValidatorStake) < 0) {
			w.Report("C18", "punishment", "byzantine-validator-kept", fmt.Sprintf("height %d: validator %s has evidence against it but stays in the validator list", b.Height, target.PubKey.String()), b.Height)
			return
		}
		w.Probe("c18_evidence_punished")
	}
	w.Probe("c18_block_checked")
}

func flatCurValue(b *BlockCtx, path string) string {
	flatDelta(b, path)
	return b.flatCur[path]
}

func ownerActed(w *World, b *BlockCtx, c *types.Candidate) bool {
	a := authSet(w, b)
	return a[c.OwnerAddress] || a[c.ControlAddress]
}

// ---------------- C22: coin registry ----------------

type MonC22 struct {
	NopMonitor
	seen    map[uint64]bool
	lastID  uint64
	classes map[string]bool
	owner   map[string]types.Address // ticker -> owner according to the accepted transactions (model)
	dirty   map[string]bool          // tickers whose ownership is not modelled any more (unknown sender)
}

func (m *MonC22) Genesis(w *World) {
	m.seen, m.classes = map[uint64]bool{}, map[string]bool{}
	m.owner, m.dirty = map[string]types.Address{}, map[string]bool{}
	for id, c := range w.Prev.Coins {
		m.seen[id] = true
		if c.Version == 0 && c.OwnerAddress != nil {
			m.owner[c.Symbol.String()] = *c.OwnerAddress
		}
	}
	m.checkUnique(w, w.Prev, w.Sc.InitialH-1)
}

// AfterTx keeps the ownership model: only the ticker owner recreates, re-owns or mints.
func (m *MonC22) AfterTx(w *World, b *BlockCtx, tm *TxMeta, r abci.ResponseDeliverTx) {
	if r.Code != 0 {
		return
	}
	var sym string
	var newOwner *types.Address
	needOwner := false
	switch d := tm.Data.(type) {
	case transaction.CreateCoinData:
		sym, newOwner = d.Symbol.String(), &tm.Sender
	case transaction.CreateTokenData:
		sym, newOwner = d.Symbol.String(), &tm.Sender
	case transaction.RecreateCoinData:
		sym, newOwner, needOwner = d.Symbol.String(), &tm.Sender, true
	case transaction.RecreateTokenData:
		sym, newOwner, needOwner = d.Symbol.String(), &tm.Sender, true
	case transaction.EditCoinOwnerData:
		o := d.NewOwner
		sym, newOwner, needOwner = d.Symbol.String(), &o, true
	case transaction.MintTokenData:
		if c := b.Prev.Coins[uint64(d.Coin)]; c != nil && c.Version == 0 {
			sym, needOwner = c.Symbol.String(), true
		} else {
			return
		}
	default:
		return
	}
	if tm.Garbage || tm.Malleated {
		m.dirty[sym] = true // a well-formed accident of mutated bytes: sender unknown to the harness
		return
	}
	if needOwner && !m.dirty[sym] {
		if o, ok := m.owner[sym]; ok && o != tm.Sender {
			w.Report("C22", "registry", "not-owner:"+tm.Kind, fmt.Sprintf("height %d: %s of ticker %s by %s accepted, the accepted transactions so far make %s its owner", b.Height, tm.Kind, sym, tm.Sender.String(), o.String()), b.Height)
			return
		}
		w.Probe("c22_owner_action_checked")
	}
	if newOwner != nil {
		m.owner[sym] = *newOwner
	}
}

func (m *MonC22) checkUnique(w *World, s *Snap, h int64) {
	act := map[string]uint64{}
	ver := map[string]uint64{}
	for _, id := range s.CoinIDs {
		c := s.Coins[id]
		sym := c.Symbol.String()
		key := fmt.Sprintf("%s-%d", sym, c.Version)
		if other, dup := ver[key]; dup {
			w.Report("C22", "registry", "duplicate-ticker-version", fmt.Sprintf("height %d: coins %d and %d are both %s", h, other, id, key), h)
			return
		}
		ver[key] = id
		if c.Version == 0 {
			if other, dup := act[sym]; dup {
				w.Report("C22", "registry", "duplicate-active-ticker", fmt.Sprintf("height %d: coins %d and %d both carry the active ticker %s", h, other, id, sym), h)
				return
			}
			act[sym] = id
		}
	}
}

func (m *MonC22) AfterBlock(w *World, b *BlockCtx) {
	if b.Cur == nil || w.Viol != nil {
		return
	}
	m.checkUnique(w, b.Cur, b.Height)
	if w.Viol != nil {
		return
	}
	// the committed registry names the owner the accepted transactions made
	for _, id := range b.Cur.CoinIDs {
		c := b.Cur.Coins[id]
		sym := c.Symbol.String()
		if c.Version != 0 || m.dirty[sym] {
			continue
		}
		if o, ok := m.owner[sym]; ok && (c.OwnerAddress == nil || *c.OwnerAddress != o) {
			got := "nobody"
			if c.OwnerAddress != nil {
				got = c.OwnerAddress.String()
			}
			w.Report("C22", "registry", "owner-not-recorded", fmt.Sprintf("height %d: ticker %s (coin %d): accepted transactions make %s the owner, the committed state says %s", b.Height, sym, id, o.String(), got), b.Height)
			return
		}
	}
	var fresh []uint64
	for _, id := range b.Cur.CoinIDs {
		if b.Prev.Coins[id] == nil {
			fresh = append(fresh, id)
		}
	}
	sort.Slice(fresh, func(i, j int) bool { return fresh[i] < fresh[j] })
	for _, id := range fresh {
		if m.seen[id] {
			w.Report("C22", "registry", "id-reused", fmt.Sprintf("height %d: new coin got id %d, which an earlier coin already had", b.Height, id), b.Height)
			return
		}
		if m.lastID != 0 && id != m.lastID+1 {
			w.Report("C22", "registry", "id-not-next", fmt.Sprintf("height %d: new coin got id %d, the previously issued id was %d", b.Height, id, m.lastID), b.Height)
			return
		}
		for old := range m.seen {
			if old >= id && old != uint64(types.USDTID) {
				w.Report("C22", "registry", "id-not-fresh", fmt.Sprintf("height %d: new coin id %d is not above existing id %d", b.Height, id, old), b.Height)
				return
			}
		}
		m.seen[id] = true
		m.lastID = id
		w.Probe("c22_new_coin")
	}
	// every coin present before is still present with the same id; a recreated ticker keeps the old
	// coin under a new version number
	for id, pc := range b.Prev.Coins {
		cc := b.Cur.Coins[id]
		if cc == nil {
			w.Report("C22", "registry", "coin-vanished", fmt.Sprintf("height %d: coin %d (%s) disappeared", b.Height, id, pc.Symbol), b.Height)
			return
		}
		if cc.Symbol != pc.Symbol {
			w.Report("C22", "registry", "ticker-changed", fmt.Sprintf("height %d: coin %d changed ticker %s -> %s", b.Height, id, pc.Symbol, cc.Symbol), b.Height)
			return
		}
		if cc.Version != pc.Version {
			if pc.Version != 0 || cc.Version == 0 {
				w.Report("C22", "registry", "version-changed", fmt.Sprintf("height %d: coin %d version %d -> %d", b.Height, id, pc.Version, cc.Version), b.Height)
				return
			}
			// archived: a new active coin with that ticker and a fresh id must exist
			ok := false
			for _, nid := range fresh {
				if n := b.Cur.Coins[nid]; n.Symbol == pc.Symbol && n.Version == 0 {
					ok = true
				}
			}
			if !ok {
				w.Report("C22", "registry", "archived-without-successor", fmt.Sprintf("height %d: coin %d (%s) was archived as version %d but no new active coin carries the ticker", b.Height, id, pc.Symbol, cc.Version), b.Height)
				return
			}
			m.classes["recreated"] = true
			w.Probe("c22_recreated")
		}
		// pool tokens change volume only with liquidity transactions of their pool
		if strings.HasPrefix(pc.Symbol.String(), "LP-") && cc.Volume != pc.Volume {
			if !liquidityTxInBlock(b) {
				w.Report("C22", "registry", "lp-volume-changed", fmt.Sprintf("height %d: pool token %s volume %s -> %s in a block without an accepted liquidity transaction", b.Height, pc.Symbol, pc.Volume, cc.Volume), b.Height)
				return
			}
			m.classes["lp-volume"] = true
		}
		if mx, vol := bi(cc.MaxSupply), bi(cc.Volume); mx != nil && vol != nil && vol.Cmp(mx) > 0 {
			w.Report("C22", "registry", "volume>max", fmt.Sprintf("height %d: coin %d volume %s above max supply %s", b.Height, id, vol, mx), b.Height)
			return
		}
	}
	w.Probe("c22_block_checked")
}

func liquidityTxInBlock(b *BlockCtx) bool {
	for i, mm := range b.Metas {
		if i >= len(b.Res.Deliver) || b.Res.Deliver[i].Code != 0 {
			continue
		}
		switch mm.Data.(type) {
		case transaction.AddLiquidityDataV260, transaction.RemoveLiquidityV240, transaction.CreateSwapPoolData, transaction.BurnTokenDataV260:
			return true
		}
	}
	return false
}

func init() {
	register(&PropSpec{ID: "C16", Level: "exploration",
		Rule: "staking histories (delegations, unbonds incl. the first block after genesis and from the waitlist, moves, locks, stake locks, candidate removals, punishments) on both chain ids; reference: accepted unbond/move/lock transactions determine exactly which frozen-fund entries (height = block + unbond / move period or due block, owner, coin, source, target) must appear; entries disappear only at their due block, releases are credited to the balance, moves only to an existing target candidate; distinct non-trivial case = distinct explanation class (unbond, move, lock, protocol unbond, slash, release, move delivered)",
		Make: func(r *rand.Rand, seed int64, chain int, tier string) *Scenario {
			many := r.Intn(10) == 0
			sc := baseScenario("C16", r, seed, chain, tier, StakeProfile(), func(g *GenCfg, n *NodeCfg) {
				g.Frozen = 4 + r.Intn(8)
				g.NCand = 2 + r.Intn(4)
				g.LockedAcct = r.Intn(3)
				if many {
					// more than 100 candidates: the recalculation removes the poorest and unbonds their stakes
					g.NVal = 3 + r.Intn(3)
					g.NCand = 99 + r.Intn(6)
					n.Period = 6
				}
			})
			if many && len(sc.Blocks) > 30 {
				sc.Blocks = sc.Blocks[:30]
			}
			return sc
		},
		Monitors: func(sc *Scenario) []Monitor { return []Monitor{&MonC16{}, MonHotCold{}} },
		Distinct: func(w *World) []string { return classesOf(w) },
		ExpectProbes: []string{"c16_block_checked"},
	})
	register(&PropSpec{ID: "C17", Level: "exploration",
		Rule: "histories of declarations, delegations, unbonds, status switches, punishments and recalculations; after every block that returns validator updates the set exported is compared with the ranking computed from the exported candidates (online, >= 1000 base coin, best 64; ties free), powers with floor(stake*1e8/sum) min 1, and the update list is applied to the real tendermint ValidatorSet; distinct non-trivial case = distinct (validators, eligible) size class",
		Make: func(r *rand.Rand, seed int64, chain int, tier string) *Scenario {
			limits := r.Intn(10) == 0
			sc := baseScenario("C17", r, seed, chain, tier, StakeProfile(), func(g *GenCfg, n *NodeCfg) {
				g.NVal = 1 + r.Intn(7)
				g.NCand = 2 + r.Intn(8)
				if limits {
					// more than 100 candidates, and a candidate whose 1000 delegation slots are (almost) full
					g.NVal = 3 + r.Intn(3)
					g.NCand = 99 + r.Intn(6)
					g.ManyDeleg = 994 + r.Intn(6)
					n.Period = 6
				}
			})
			if limits {
				if len(sc.Blocks) > 30 {
					sc.Blocks = sc.Blocks[:30]
				}
				// delegations to candidate 0 from accounts without a stake there, around the smallest stake (10..1009 coins)
				for i := range sc.Blocks {
					if i%6 == 2 {
						amt := []uint64{5, 10, 11, 500, 2000}[r.Intn(5)]
						sc.Blocks[i].Ops = append(sc.Blocks[i].Ops, Op{K: "delegate", A: r.Intn(sc.Gen.NAcct), X: []int64{0, 0, 0, 0, 0, 0, 0}, V: []Amt{{Mode: 0, M: amt, E: 18}}})
					}
					if i%6 == 4 && r.Intn(2) == 0 {
						sc.Blocks[i].Ops = append(sc.Blocks[i].Ops, Op{K: "declare", A: r.Intn(sc.Gen.NAcct), X: []int64{int64(r.Intn(40)), 0, int64(r.Intn(10)), int64(r.Intn(100)), 0, 0, 0}, V: []Amt{{Mode: 0, M: uint64(100 + r.Intn(5000)), E: 18}}})
					}
				}
			}
			return sc
		},
		Monitors: func(sc *Scenario) []Monitor { return []Monitor{&MonC17{}} },
		Distinct: func(w *World) []string { return classesOf(w) },
		ExpectProbes: []string{"c17_update_checked", "c17_candidate_removed_over_100", "c17_full_slots_checked", "c17_removed_candidate_rank_checked"},
	})
	register(&PropSpec{ID: "C18", Level: "exploration",
		Rule: "vote sets with absence streaks around the 12-of-24 limit, whole-set outages and byzantine evidence against current, offline, dropped and unknown validators (also repeated and on payout blocks); reference window / jail / 5% slash model from the statement compared with exported candidates, frozen funds, validator list and later SetCandidateOnline outcomes; distinct non-trivial case = distinct punishment class",
		Make: func(r *rand.Rand, seed int64, chain int, tier string) *Scenario {
			p := StakeProfile()
			p.PStreak, p.PAbsent, p.PEvidence = 0.08, 0.06, 0.06
			p.W["seton"] = 20
			p.TxMax = 4
			sc := baseScenario("C18", r, seed, chain, tier, p, func(g *GenCfg, n *NodeCfg) {
				g.NVal = 2 + r.Intn(5)
				g.Frozen = 3 + r.Intn(6)
				if r.Intn(2) == 0 {
					// beyond the genesis grace period
					g.OldRules = false
				}
			})
			if tier != "thorough" {
				// most punishments need to be outside the first 120 blocks
				extra := GenBlocks(r, &p, 110, sc.Gen.NAcct, sc.Gen.NVal, sc.Node.Period, sc.InitialH+int64(len(sc.Blocks)))
				sc.Blocks = append(sc.Blocks, extra...)
			}
			// the node is restarted now and then (a restart must not open a new grace period)
			if r.Intn(2) == 0 {
				sc.Params = map[string]int64{"main_restart": 1}
				for i := range sc.Blocks {
					if i > 0 && r.Intn(30) == 0 {
						sc.Blocks[i].Restart = true
					}
				}
			}
			return sc
		},
		Monitors: func(sc *Scenario) []Monitor { return []Monitor{&MonC18{}} },
		Distinct: func(w *World) []string { return classesOf(w) },
		ExpectProbes: []string{"c18_block_checked", "c18_absence_punished", "c18_evidence_punished", "c18_jailed_switch_on_rejected"},
	})
	register(&PropSpec{ID: "C22", Level: "exploration",
		Rule: "long sequences of create coin/token, recreate, owner change, mint, burn and pool creation by owners and non-owners with colliding tickers (also look-alikes: the letters of a ticker in use or of the base coin behind a leading zero byte); reference registry over consecutive exports: active tickers unique, new ids never seen before and consecutive, recreated coins archived under a new version with a fresh successor, pool-token volume changes only with liquidity transactions, volume <= max supply; distinct non-trivial case = distinct (tx kind, result code) of registry transactions",
		Make: func(r *rand.Rand, seed int64, chain int, tier string) *Scenario {
			p := GeneralProfile()
			for _, k := range []string{"createcoin", "createtoken", "recreatecoin", "recreatetoken", "editcoinowner", "mint", "burn", "createpool", "addliq", "remliq"} {
				p.W[k] = 12
			}
			sc := baseScenario("C22", r, seed, chain, tier, p, func(g *GenCfg, n *NodeCfg) {
				for i := 0; i < 3; i++ {
					_ = i
				}
			})
			// the node is restarted now and then: the registry (next id, versions, owners) it reloads must carry on
			if r.Intn(3) == 0 {
				sc.Params = map[string]int64{"main_restart": 1}
				for i := range sc.Blocks {
					if i > 0 && r.Intn(6) == 0 {
						sc.Blocks[i].Restart = true
					}
				}
			}
			return sc
		},
		Monitors: func(sc *Scenario) []Monitor { return []Monitor{&MonC22{}} },
		Distinct: func(w *World) []string {
			var out []string
			for k := range w.Stats.ByKindCode {
				for _, p := range []string{"create", "recreate", "mint", "burn", "editcoinowner", "addliq", "remliq"} {
					if strings.HasPrefix(k, p) {
						out = append(out, k)
					}
				}
			}
			return out
		},
		ExpectProbes: []string{"c22_block_checked", "c22_new_coin", "c22_recreated", "c22_owner_action_checked"},
	})
}

func classesOf(w *World) []string {
	var out []string
	for _, m := range w.Monitors {
		var c map[string]bool
		switch x := m.(type) {
		case *MonC16:
			c = x.classes
		case *MonC17:
			c = x.classes
		case *MonC18:
			c = x.classes
		case *MonC22:
			c = x.classes
		}
		for k := range c {
			out = append(out, k)
		}
	}
	return out
}

// StakeProfile is the staking-heavy workload (also a swarm flavour of C09 / C10).
func StakeProfile() Profile {
	p := GeneralProfile()
	for _, k := range []string{"delegate", "unbond", "move", "lock", "declare", "seton", "setoff", "lockstake"} {
		p.W[k] = 12
	}
	p.PEvidence, p.PAbsent, p.PStreak = 0.03, 0.04, 0.03
	p.PDup, p.PGarbage = 0.02, 0.01
	return p
}
