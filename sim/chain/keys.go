package chain

import (
	"crypto/ecdsa"
	"crypto/sha256"
	"fmt"
	"sync"

	"github.com/MinterTeam/minter-go-node/coreV2/types"
	"github.com/MinterTeam/minter-go-node/crypto"
	"github.com/tendermint/tendermint/crypto/ed25519"
)

// Accounts and validator keys are pure functions of their index, so replay files only carry indexes.

type acct struct {
	Priv *ecdsa.PrivateKey
	Addr types.Address
}

var (
	acctMu    sync.Mutex
	acctCache = map[int]*acct{}
)

// Acct returns the i-th deterministic account.
func Acct(i int) *acct {
	acctMu.Lock()
	defer acctMu.Unlock()
	if a, ok := acctCache[i]; ok {
		return a
	}
	seed := crypto.Keccak256([]byte(fmt.Sprintf("verif/acct/%d", i)))
	pk, err := crypto.ToECDSA(seed)
	if err != nil {
		panic(err)
	}
	a := &acct{Priv: pk, Addr: crypto.PubkeyToAddress(pk.PublicKey)}
	acctCache[i] = a
	return a
}

// ValKey returns the i-th deterministic validator public key.
func ValKey(i int) types.Pubkey {
	h := sha256.Sum256([]byte(fmt.Sprintf("verif/val/%d", i)))
	return types.Pubkey(h)
}

// TmAddr is the Tendermint address of a validator public key.
func TmAddr(pk types.Pubkey) types.TmAddress {
	var a types.TmAddress
	copy(a[:], ed25519.PubKey(pk[:]).Address().Bytes())
	return a
}

// MultisigAddr mirrors accounts.CreateMultisigAddress semantics loosely: simulator-created multisigs in
// genesis use a fixed address derived from an index.
func MultisigAddr(i int) types.Address {
	h := sha256.Sum256([]byte(fmt.Sprintf("verif/multisig/%d", i)))
	var a types.Address
	copy(a[:], h[:20])
	return a
}
