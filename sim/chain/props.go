package chain

import (
	"crypto/sha256"
	"encoding/binary"
	"math/rand"
)

// PropSpec wires a property to its scenario generator and monitors.
type PropSpec struct {
	ID       string
	Level    string // evidence level
	Rule     string // how cases are generated and what makes one distinct / non-trivial
	Make     func(r *rand.Rand, seed int64, chain int, tier string) *Scenario
	Monitors func(sc *Scenario) []Monitor
	Setup    func(w *World)
	// Distinct returns the keys of distinct non-trivial cases a finished run contributed.
	Distinct func(w *World) []string
	Assumptions []string
	ExpectProbes []string // probes that should be non-zero in a healthy batch (reported when stuck at zero)
	Budget   func(tier string) float64
	ChainFor func(worker int) int
	// Worker / Replay replace the generic loop for engines with their own run shape.
	Worker func(a WorkerArgs) int
	Replay func(file string, verbose bool) int
}

// WorkerArgs are the arguments of a worker process.
type WorkerArgs struct {
	Prop, Tier        string
	Base              int64
	Offset, Stride    int
	Chain             int
	Budget            float64
	MaxRuns           int
	Out, ReplayDir    string
}

// Registry of properties served by the chain engine.
var Registry = map[string]*PropSpec{}

func register(p *PropSpec) { Registry[p.ID] = p }

// SeedFor derives the i-th run seed of a property from the base seed.
func SeedFor(base int64, prop string, i int) int64 {
	h := sha256.New()
	var b [8]byte
	binary.BigEndian.PutUint64(b[:], uint64(base))
	h.Write(b[:])
	h.Write([]byte(prop))
	binary.BigEndian.PutUint64(b[:], uint64(i))
	h.Write(b[:])
	s := h.Sum(nil)
	return int64(binary.BigEndian.Uint64(s[:8]) >> 1)
}

// swarmNode samples a node configuration.
func swarmNode(r *rand.Rand) NodeCfg {
	periods := []uint64{6, 8, 12, 12, 24}
	c := NodeCfg{Period: periods[r.Intn(len(periods))], KeepLast: []int64{0, 1, 5, 120}[r.Intn(4)], CacheSize: []int{8, 64, 10000}[r.Intn(3)]}
	c.ExpirePeriod = uint64(5 + r.Intn(30))
	return c
}

func swarmInitialHeight(r *rand.Rand, chain int) int64 {
	if chain == 1 {
		// mainnet id tolerates negative balances below 4415830; LockStake only above 10197360
		return []int64{4500000, 10200000, 10300000}[r.Intn(3)]
	}
	return []int64{2, 50, 1000, 10200000}[r.Intn(4)]
}

func swarmGen(r *rand.Rand, initial int64) GenCfg {
	g := GenCfg{NAcct: 6 + r.Intn(14), NVal: 1 + r.Intn(6), NCand: r.Intn(6), NCoin: r.Intn(4), NToken: 1 + r.Intn(4), NPool: r.Intn(5),
		NMultisig: r.Intn(3), USDT: true, Frozen: r.Intn(5), Waitlist: r.Intn(3), InitialH: initial, LockedAcct: 0}
	if r.Intn(6) == 0 {
		g.OldRules = true
	}
	if r.Intn(4) == 0 {
		g.EqualStake = true
	}
	if r.Intn(3) == 0 {
		g.EqualPools = true
	}
	if r.Intn(4) == 0 {
		g.TightSupply = true
		if g.NCoin == 0 {
			g.NCoin = 1
		}
	}
	return g
}

// varyProfile switches off a random subset of kinds and scales fault rates (swarm testing).
func varyProfile(r *rand.Rand, p Profile) Profile {
	w := map[string]int{}
	for _, k := range allKinds { // fixed order: the PRNG is consumed inside the loop
		v := p.W[k]
		w[k] = v
		if r.Intn(5) == 0 {
			w[k] = 0
		} else if r.Intn(5) == 0 {
			w[k] = v * 4
		}
	}
	p.W = w
	scale := func(x float64) float64 {
		switch r.Intn(4) {
		case 0:
			return 0
		case 1:
			return x * 3
		}
		return x
	}
	p.PAbsent, p.PStreak, p.PEvidence = scale(p.PAbsent), scale(p.PStreak), scale(p.PEvidence)
	p.PBadNonce, p.PBadSig, p.PMultisig, p.PDup, p.PGarbage = scale(p.PBadNonce), scale(p.PBadSig), scale(p.PMultisig), scale(p.PDup), scale(p.PGarbage)
	p.PZeroGP, p.PGasCustom, p.PPayload, p.PClockJump, p.PBigAmt = scale(p.PZeroGP), scale(p.PGasCustom), scale(p.PPayload), scale(p.PClockJump), scale(p.PBigAmt)
	return p
}

func tierBlocks(r *rand.Rand, tier string) int {
	if tier == "thorough" {
		return 60 + r.Intn(200)
	}
	return 30 + r.Intn(50)
}

// baseScenario builds a general scenario from a profile.
func baseScenario(prop string, r *rand.Rand, seed int64, chain int, tier string, p Profile, tweak func(*GenCfg, *NodeCfg)) *Scenario {
	nc := swarmNode(r)
	initial := swarmInitialHeight(r, chain)
	g := swarmGen(r, initial)
	if tweak != nil {
		tweak(&g, &nc)
	}
	st := BuildGenesis(r, g)
	p = varyProfile(r, p)
	n := tierBlocks(r, tier)
	// start of day varies so that the 12:00-14:59 window is met at different phases
	t0 := int64(1700000000) + int64(r.Intn(86400))
	sc := &Scenario{Format: 1, Prop: prop, Seed: seed, ChainID: chain, Node: nc, Gen: g, InitialH: g.InitialH, Time0: t0,
		Genesis: MarshalGenesis(st), Blocks: GenBlocks(r, &p, n, g.NAcct, g.NVal, nc.Period, g.InitialH)}
	return sc
}

func distinctKindCodes(w *World) []string {
	var out []string
	for k := range w.Stats.ByKindCode {
		out = append(out, k)
	}
	return out
}

func init() {
	register(&PropSpec{ID: "C01", Level: "exploration",
		Rule: "seeded (genesis, node config, block schedule with transactions of all types, absences, evidence, clock jumps); after every commit an independent ledger over the cold export is compared with coin volumes and the emission counter; distinct non-trivial case = distinct (tx kind, result code) pair delivered in a checked block",
		Make: func(r *rand.Rand, seed int64, chain int, tier string) *Scenario {
			p := GeneralProfile()
			p.EvidenceOnPayout = false
			return baseScenario("C01", r, seed, chain, tier, p, nil)
		},
		Monitors: func(sc *Scenario) []Monitor { return []Monitor{&MonC01{}, MonHotCold{}} },
		Distinct: distinctKindCodes,
	})
	register(&PropSpec{ID: "C02", Level: "exploration",
		Rule: "same histories as C01 with overdraw-biased amounts; sign / max-supply / positive-reserve invariants on every cold export plus live balance reads after every delivered transaction; distinct non-trivial case = distinct (tx kind, result code) pair",
		Make: func(r *rand.Rand, seed int64, chain int, tier string) *Scenario {
			p := GeneralProfile()
			p.PBigAmt = 0.3
			for _, k := range []string{"sellall", "sellallpool", "buy", "buypool", "remliq", "burn", "mint", "unbond", "buyheadroom", "sellheadroom"} {
				p.W[k] = 8
			}
			return baseScenario("C02", r, seed, chain, tier, p, nil)
		},
		Monitors: func(sc *Scenario) []Monitor { return []Monitor{&MonC02{}} },
		Setup:    func(w *World) { w.HotChecks = true },
		Distinct: distinctKindCodes,
	})
}

// MonC07 adds the "keeps producing blocks" half of C07: any stop of the node that no governance
// vote can justify is a violation (panics are reported by the world itself).
type MonC07 struct {
	NopMonitor
}

func (m *MonC07) AfterBlock(w *World, b *BlockCtx) {
	if b.Res.Stopped {
		w.Report("C07", "keeps-producing-blocks", "unjustified-stop", "node stopped itself although the history contains no halt or version vote", b.Height)
	}
}

func hostileProfile() Profile {
	p := GeneralProfile()
	p.PGarbage, p.PDup, p.PBadNonce, p.PBadSig, p.PMultisig = 0.08, 0.12, 0.08, 0.08, 0.1
	p.PBigAmt, p.PZeroGP, p.PPayload, p.PClockJump, p.PEvidence, p.PAbsent, p.PStreak = 0.35, 0.05, 0.2, 0.08, 0.08, 0.08, 0.05
	p.EvidenceOnPayout = true
	p.W["editcandpk"], p.W["unknowntype"], p.W["pricevote"] = 4, 2, 2
	for _, k := range []string{"unbond", "move", "lock", "addorder", "remorder", "declare", "delegate", "seton", "setoff"} {
		p.W[k] = 8
	}
	return p
}

func init() {
	register(&PropSpec{ID: "C07", Level: "exploration",
		Rule: "hostile histories: random and structure-mutated transaction bytes of every type (zero/huge amounts, missing entities, 33 signatures, payload at limits), hostile begin-block requests (unknown/duplicate/empty vote sets, evidence against current/offline/unknown validators biased to payout blocks, clock jumps into the reward window, non-monotone time), genesis with and without the BIP/USDT pool; oracle: no call panics or stops the node and the next block commits; distinct non-trivial case = distinct (tx kind, result code) pair, plus fault kinds fired",
		Make: func(r *rand.Rand, seed int64, chain int, tier string) *Scenario {
			p := hostileProfile()
			sc := baseScenario("C07", r, seed, chain, tier, p, func(g *GenCfg, n *NodeCfg) {
				if r.Intn(5) == 0 {
					g.USDT = false
				}
				if r.Intn(4) == 0 {
					g.NearCap = true
				}
				if r.Intn(3) == 0 {
					g.PriceSwarm = true
				}
			})
			for i := range sc.Blocks {
				b := &sc.Blocks[i]
				switch r.Intn(30) {
				case 0:
					b.NoVotes = true
				case 1:
					b.DupVote = true
				case 2:
					b.ExtraVotes = []int64{int64(r.Intn(100)), int64(r.Intn(100))}
				case 3:
					b.TimeBack = int64(1 + r.Intn(100000))
				case 4:
					// land in the reward update window
					b.Dt = int64(3600 * (1 + r.Intn(23)))
				}
			}
			return sc
		},
		Monitors: func(sc *Scenario) []Monitor { return []Monitor{&MonC07{}} },
		Distinct: func(w *World) []string {
			out := distinctKindCodes(w)
			for k := range w.Stats.Faults {
				out = append(out, "fault:"+k)
			}
			return out
		},
	})
}
