module chainsim

go 1.17

require (
	github.com/MinterTeam/minter-go-node v0.0.0
	github.com/MinterTeam/node-grpc-gateway v1.6.2-0.20220413090743-53ffbb191668
	github.com/cosmos/cosmos-sdk v0.44.5
	github.com/google/btree v1.0.0
	github.com/tendermint/go-amino v0.16.0
	github.com/tendermint/tendermint v0.34.19
	github.com/tendermint/tm-db v0.6.6
	golang.org/x/crypto v0.0.0-20211202192323-5770296d904e
)

require (
	github.com/Workiva/go-datastructures v1.0.53 // indirect
	github.com/beorn7/perks v1.0.1 // indirect
	github.com/btcsuite/btcd v0.22.0-beta // indirect
	github.com/cespare/xxhash/v2 v2.1.2 // indirect
	github.com/confio/ics23/go v0.6.6 // indirect
	github.com/cosmos/iavl v0.17.3 // indirect
	github.com/davecgh/go-spew v1.1.1 // indirect
	github.com/go-kit/kit v0.12.0 // indirect
	github.com/go-kit/log v0.2.0 // indirect
	github.com/go-logfmt/logfmt v0.5.1 // indirect
	github.com/gogo/protobuf v1.3.3 // indirect
	github.com/golang/protobuf v1.5.2 // indirect
	github.com/golang/snappy v0.0.3 // indirect
	github.com/google/orderedcode v0.0.1 // indirect
	github.com/gorilla/websocket v1.5.0 // indirect
	github.com/grpc-ecosystem/grpc-gateway v1.16.0 // indirect
	github.com/grpc-ecosystem/grpc-gateway/v2 v2.10.0 // indirect
	github.com/gtank/merlin v0.1.1 // indirect
	github.com/lib/pq v1.10.4 // indirect
	github.com/libp2p/go-buffer-pool v0.0.2 // indirect
	github.com/matttproud/golang_protobuf_extensions v1.0.1 // indirect
	github.com/mimoo/StrobeGo v0.0.0-20181016162300-f8f6d4d2b643 // indirect
	github.com/minio/highwayhash v1.0.2 // indirect
	github.com/pkg/errors v0.9.1 // indirect
	github.com/prometheus/client_golang v1.12.1 // indirect
	github.com/prometheus/client_model v0.2.0 // indirect
	github.com/prometheus/common v0.32.1 // indirect
	github.com/prometheus/procfs v0.7.3 // indirect
	github.com/rcrowley/go-metrics v0.0.0-20200313005456-10cdbea86bc0 // indirect
	github.com/rs/cors v1.8.2 // indirect
	github.com/syndtr/goleveldb v1.0.1-0.20200815110645-5c35d600f0ca // indirect
	golang.org/x/net v0.0.0-20220127200216-cd36cc0744dd // indirect
	golang.org/x/sys v0.0.0-20220114195835-da31bd327af9 // indirect
	golang.org/x/text v0.3.7 // indirect
	google.golang.org/genproto v0.0.0-20220317150908-0efb43f6373e // indirect
	google.golang.org/grpc v1.45.0 // indirect
	google.golang.org/protobuf v1.27.1 // indirect
)

replace github.com/MinterTeam/minter-go-node => /repo

replace github.com/gogo/protobuf => github.com/regen-network/protobuf v1.3.3-alpha.regen.1
